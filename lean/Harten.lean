import Mathlib
open Finset BigOperators

theorem harten {n : ℕ} [NeZero n] (u u' C D : ZMod n → ℝ)
    (hC : ∀ i, 0 ≤ C i) (hD : ∀ i, 0 ≤ D i) (hCD : ∀ i, C i + D (i+1) ≤ 1)
    (hstep : ∀ i, u' i = u i + C i * (u (i+1) - u i) - D i * (u i - u (i-1))) :
    ∑ i, |u' (i+1) - u' i| ≤ ∑ i, |u (i+1) - u i| := by
  set Δ : ZMod n → ℝ := fun i => u (i+1) - u i with hΔ
  have key : ∀ i, u' (i+1) - u' i
      = (1 - C i - D (i+1)) * Δ i + C (i+1) * Δ (i+1) + D i * Δ (i-1) := by
    intro i
    simp only [hΔ, hstep]
    have h1 : i + 1 - 1 = i := by ring
    have h2 : i - 1 + 1 = i := by ring
    rw [h1, h2]
    ring
  have bound : ∀ i, |u' (i+1) - u' i|
      ≤ (1 - C i - D (i+1)) * |Δ i| + C (i+1) * |Δ (i+1)| + D i * |Δ (i-1)| := by
    intro i
    rw [key i]
    have a1 : 0 ≤ 1 - C i - D (i+1) := by linarith [hCD i]
    calc |(1 - C i - D (i+1)) * Δ i + C (i+1) * Δ (i+1) + D i * Δ (i-1)|
        ≤ |(1 - C i - D (i+1)) * Δ i| + |C (i+1) * Δ (i+1)| + |D i * Δ (i-1)| :=
          abs_add_three _ _ _
      _ = (1 - C i - D (i+1)) * |Δ i| + C (i+1) * |Δ (i+1)| + D i * |Δ (i-1)| := by
          rw [abs_mul, abs_mul, abs_mul, abs_of_nonneg a1, abs_of_nonneg (hC _),
              abs_of_nonneg (hD _)]
  calc ∑ i, |u' (i+1) - u' i|
      ≤ ∑ i, ((1 - C i - D (i+1)) * |Δ i| + C (i+1) * |Δ (i+1)| + D i * |Δ (i-1)|) :=
        Finset.sum_le_sum (fun i _ => bound i)
    _ = ∑ i, (1 - C i - D (i+1)) * |Δ i| + ∑ i, C (i+1) * |Δ (i+1)|
          + ∑ i, D i * |Δ (i-1)| := by
        rw [Finset.sum_add_distrib, Finset.sum_add_distrib]
    _ = ∑ i, (1 - C i - D (i+1)) * |Δ i| + ∑ i, C i * |Δ i| + ∑ i, D (i+1) * |Δ i| := by
        have s1 : ∑ i, C (i+1) * |Δ (i+1)| = ∑ i, C i * |Δ i| :=
          Equiv.sum_comp (Equiv.addRight (1 : ZMod n)) (fun i => C i * |Δ i|)
        have s2 : ∑ i, D i * |Δ (i-1)| = ∑ i, D (i+1) * |Δ i| := by
          have := Equiv.sum_comp (Equiv.addRight (1 : ZMod n)) (fun i => D i * |Δ (i-1)|)
          simp only [Equiv.coe_addRight, add_sub_cancel_right] at this
          exact this.symm
        rw [s1, s2]
    _ = ∑ i, |Δ i| := by
        rw [← Finset.sum_add_distrib, ← Finset.sum_add_distrib]
        apply Finset.sum_congr rfl
        intro i _
        ring
