"""Dimensional typing of a symbolic result (C13, change of units).

A term built by the symbolic execution of the real code is assigned a vector of unit exponents (Fractions) by the usual
rules; a successful derivation is a proof that the term is a homogeneous function of its inputs of the stated degree, i.e.
that rescaling every input by the factor of its unit rescales the value by the factor of the derived unit (for all inputs):

    numerals           0 is of every unit; any other numeral is dimensionless
    x + y, x - y       same unit (otherwise: a sum of quantities of different units -- not homogeneous)
    x * y, x / y       exponents add / subtract;   x ** n (n numeral): n times the exponents
    sqrt(x)            half the exponents;  x ** y, log, exp, cos, sin: dimensionless argument(s), dimensionless value
    ite(c, x, y)       x and y of the same unit; c compares quantities of the same unit (or with 0)
    input arrays, parameters: declared units (index arguments are not quantities)

`Mismatch` carries the offending sub-term: it names a literal or an operation that ties the result to one unit system.
"""
from fractions import Fraction
import z3


class Mismatch(Exception):
    pass


ANY = "any"      # the unit of the literal 0


def _same(a, b, what, term):
    if a is ANY:
        return b
    if b is ANY:
        return a
    if a != b:
        raise Mismatch("%s of different units %s and %s in: %s" % (what, fmt(a), fmt(b), str(term)[:160].replace("\n", " ")))
    return a


def fmt(d):
    if d is ANY:
        return "any"
    return "(" + ",".join(str(x) for x in d) + ")"


class DimChecker:
    def __init__(self, nbase, decl_units, sqrt_names=("usqrt",), pow_names=("rpow",), dimless_fns=("ln", "ucos", "usin", "uexp")):
        self.n = nbase
        self.units = dict(decl_units)       # declaration name -> exponent tuple (arrays and scalar parameters)
        self.sqrt_names, self.pow_names, self.dimless_fns = set(sqrt_names), set(pow_names), set(dimless_fns)
        self.zero = tuple([Fraction(0)] * nbase)
        self.cache = {}
        self.cond_cache = {}

    def add(self, a, b):
        if a is ANY or b is ANY:
            return ANY
        return tuple(x + y for x, y in zip(a, b))

    def scale(self, a, k):
        if a is ANY:
            return ANY
        return tuple(x * k for x in a)

    def unit(self, e):
        i = e.get_id()
        if i in self.cache:
            return self.cache[i]
        r = self._unit(e)
        self.cache[i] = r
        return r

    def _unit(self, e):
        if z3.is_rational_value(e) or z3.is_int_value(e) or z3.is_algebraic_value(e):
            v = e.as_fraction() if z3.is_rational_value(e) else None
            if z3.is_int_value(e):
                v = Fraction(e.as_long())
            return ANY if v == 0 else self.zero
        if not z3.is_app(e):
            raise Mismatch("unsupported term: %s" % str(e)[:120])
        k = e.decl().kind()
        ch = e.children()
        if e.sort() == z3.IntSort():
            return self.zero                    # integers (indices, counts) are not quantities
        if k in (z3.Z3_OP_ADD, z3.Z3_OP_SUB):
            u = ANY
            for c in ch:
                u = _same(u, self.unit(c), "sum", e)
            return u
        if k == z3.Z3_OP_UMINUS:
            return self.unit(ch[0])
        if k == z3.Z3_OP_MUL:
            u = self.zero
            for c in ch:
                uc = self.unit(c)
                if uc is ANY:
                    return ANY
                u = self.add(u, uc)
            return u
        if k == z3.Z3_OP_DIV:
            a, b = self.unit(ch[0]), self.unit(ch[1])
            if b is ANY:
                raise Mismatch("division by the literal 0")
            if a is ANY:
                return ANY
            return self.add(a, self.scale(b, -1))
        if k == z3.Z3_OP_POWER:
            n = ch[1]
            if z3.is_rational_value(n) or z3.is_int_value(n):
                return self.scale(self.unit(ch[0]), n.as_fraction() if z3.is_rational_value(n) else Fraction(n.as_long()))
            _same(self.unit(ch[0]), self.zero, "power with a symbolic exponent: base", e)
            _same(self.unit(n), self.zero, "exponent", e)
            return self.zero
        if k == z3.Z3_OP_TO_REAL:
            if z3.is_int_value(ch[0]) and ch[0].as_long() == 0:
                return ANY
            return self.zero
        if k == z3.Z3_OP_ITE:
            self.cond(ch[0])
            return _same(self.unit(ch[1]), self.unit(ch[2]), "branches", e)
        if k == z3.Z3_OP_UNINTERPRETED:
            nm = e.decl().name()
            base = nm.split("!")[0]
            if nm in self.units:
                return self.units[nm]
            if base in self.units:
                return self.units[base]
            if base in self.sqrt_names:
                return self.scale(self.unit(ch[0]), Fraction(1, 2))
            if base in self.pow_names:
                _same(self.unit(ch[0]), self.zero, "x**y: base", e)
                _same(self.unit(ch[1]), self.zero, "x**y: exponent", e)
                return self.zero
            if base in self.dimless_fns:
                _same(self.unit(ch[0]), self.zero, base + ": argument", e)
                return self.zero
            raise Mismatch("no unit declared for symbol %s" % nm)
        raise Mismatch("unsupported operation %s" % e.decl().name())

    def cond(self, c):
        i = c.get_id()
        if i in self.cond_cache:
            return
        self.cond_cache[i] = True
        if z3.is_true(c) or z3.is_false(c):
            return
        k = c.decl().kind()
        ch = c.children()
        if k in (z3.Z3_OP_AND, z3.Z3_OP_OR, z3.Z3_OP_NOT, z3.Z3_OP_IMPLIES, z3.Z3_OP_XOR):
            for x in ch:
                self.cond(x)
            return
        if k == z3.Z3_OP_ITE:
            for x in ch:
                self.cond(x)
            return
        if k in (z3.Z3_OP_LE, z3.Z3_OP_LT, z3.Z3_OP_GE, z3.Z3_OP_GT, z3.Z3_OP_EQ, z3.Z3_OP_DISTINCT):
            if ch[0].sort() == z3.BoolSort():
                for x in ch:
                    self.cond(x)
                return
            if ch[0].sort() == z3.IntSort():
                return
            _same(self.unit(ch[0]), self.unit(ch[1]), "comparison", c)
            return
        raise Mismatch("unsupported condition %s" % c.decl().name())
