"""Check driver: collects obligations from harnesses, discharges them, replays
counterexamples on the real code, applies the known-findings file, writes evidence and
maps the outcome to the exit code (0 held / 1 violation / 2 undecided / 3 engine error).
"""
import json
import os
import re
import subprocess
import sys
import time
import traceback
from fractions import Fraction
import z3

from . import terms as T
import re as _re_mod
from .terms import EngineError, Obligation, cur
from . import arrays as A
from . import discharge
from .interp import Interp, Explorer, PyException

VERIF = os.path.dirname(os.path.dirname(os.path.abspath(__file__)))
REPO = os.environ.get("FLOWDYN_REPO", "/repo")
VENV_PY = "/venv/bin/python"


# --------------------------------------------------------------------------------------
# harness-side API

def prove(name, goal, expect="proved", replay=None, note=None, kind="post", steps=None, timeout=None,
          samples=None, strong_neg=None, optional=False):
    """strong_neg: optional formula implying the negation of the goal with a margin; when the
    goal is refuted the model shown to the replay is taken from it if it is satisfiable too
    (solvers like to return boundary models that float rounding cannot reproduce)"""
    s = cur()
    if samples is None:
        samples = s.ghost.get("default_samples")
    ob = Obligation(name, kind, goal, list(s.facts), list(s.pc),
                    {"expect": expect, "replay": replay, "note": note, "watches": list(s.watches),
                     "steps": steps, "timeout": timeout, "samples": samples, "strong_neg": strong_neg,
                     "optional": optional})
    deps = s.ghost.get("active_hints")
    if deps:
        ob.meta["hint_obs"] = list(deps)      # also for canaries: a canary proved under a failed ghost lemma is not vacuity
    s.obligations.append(ob)
    return ob


def prove_with_hints(name, goal, hints, binding, replay=None, samples=None, timeout=None):
    """Staged proof (DESIGN §3 'hints'): `hints` are (label, formula) over opaque ghost
    symbols, `binding` maps each ghost symbol to the code's term.  Obligations:
    every hint with the binding substituted (proved against the code), and the goal from
    the hints alone (ghost symbols opaque).  A hint that is not proved never is a
    violation: the goal is then undecided and a bounded tie-break on the real code decides
    between VIOLATION (concrete failing input) and exit 2."""
    s = cur()
    subs = [(k, v) for k, v in binding.items()]
    hnames = []
    for label, f in hints:
        hn = "%s/hint:%s" % (name, label)
        ob = Obligation(hn, "hint", z3.substitute(f, *subs), list(s.facts), list(s.pc),
                        {"expect": "proved", "role": "hint", "parent": name, "watches": list(s.watches),
                         "timeout": timeout, "steps": None, "replay": None})
        s.obligations.append(ob)
        hnames.append(hn)
    ob = Obligation(name, "post", goal, list(s.facts) + [f for _, f in hints], list(s.pc),
                    {"expect": "proved", "replay": replay, "watches": list(s.watches), "hints": hnames,
                     "samples": samples, "timeout": timeout, "steps": None})
    s.obligations.append(ob)
    return ob


def lemma(name, formula):
    """staged ghost assertion: prove `formula` (hint obligation), then use it as a fact"""
    from .hints import _hint_obligation
    _hint_obligation(name, formula)
    cur().add_fact(T.tz(formula))


def canary(name, goal):
    """vacuity guard: `goal` is known to be false under the same hypotheses, so the
    solver must find a model; 'proved' here means contradictory hypotheses"""
    return prove(name, goal, expect="refuted", kind="canary")


def assume(f):
    if f is True:
        return
    cur().add_fact(T.tz(f))


def watch(label, term):
    cur().watches.append((label, term))


def real(name):
    return z3.Real(name)


def integer(name):
    return z3.Int(name)


# --------------------------------------------------------------------------------------

def _san(s):
    return re.sub(r"[^A-Za-z0-9_.=,+-]+", "_", s)[:150]


def parse_num(s):
    """model value string -> float"""
    if s is None:
        return None
    if s in ("true", "false"):
        return s == "true"
    try:
        if "/" in s:
            a, b = s.split("/")
            return float(Fraction(int(a), int(b)))
        return float(s)
    except Exception:
        return None


class Check:
    def __init__(self, prop_id, tier="quick", seed=0):
        self.prop = prop_id
        self.tier = tier
        self.seed = seed
        self.t0 = time.time()
        self.interp = Interp(REPO)
        self.obligations = []        # Obligation objects with full names
        self.functions = {}          # qualname -> set of modes
        self.configs = []
        self.notes = []
        self.assumptions = []
        self.bounded = []            # labelled bounded stand-ins (never counted as proved)
        self.engine_errors = []
        self.native_results = []     # results of non-SMT sub-checks (exact rational / Lean)
        self.timeout = 20.0 if tier == "quick" else 90.0
        self.paths = 0
        self.lemmas = []

    # -- running harnesses ---------------------------------------------------------------
    def run(self, group, harness, max_paths=512, always=False):
        """explore all paths of `harness`; obligations get the prefix `<prop>/<group>/`"""
        import re as _re
        inc = getattr(self, "_include", None)
        if inc is not None:
            # leaf contracts of another property's harness that this property's proof relies on (Check.include)
            if not _re.search(inc[1], group) and not always:
                return []
            if not always:
                group = "%s/%s" % (inc[0], group)
        if getattr(self, "only", None) and not always and not _re.search(self.only, group):
            return []
        self.interp.hints = None
        ex = Explorer(max_paths=max_paths)
        try:
            sessions = ex.explore(harness, group)
        except EngineError as e:
            self.engine_errors.append("%s: %s" % (group, e))
            return []
        except RecursionError as e:
            self.engine_errors.append("%s: interpreter recursion" % group)
            return []
        live = [s for s in sessions if s.outcome != "infeasible"]
        # a path on which the real code raises an exception the harness does not expect: the path must be infeasible
        # (obligation `no-exception`); a feasible one is reported with the solver's input, like any refuted obligation
        rp_any = None
        for s in live:
            for ob in s.obligations:
                if ob.meta and ob.meta.get("replay"):
                    rp_any = ob.meta["replay"]
                    break
            if rp_any:
                break
        # solver-independent safety obligations raised by the numpy model (reduced-precision buffers) get the group's replay
        for s in live:
            for ob in s.obligations:
                if ob.kind == "safety" and "double-precision-buffer" in ob.name and not (ob.meta or {}).get("replay") and rp_any:
                    ob.meta = dict(ob.meta or {}, replay=dict(rp_any, args=dict(rp_any.get("args", {}), clause="float-accuracy")))
        for s in live:
            if s.outcome == "raise":
                exc = getattr(s, "exception", None)
                try:
                    ename = exc.cls.name if hasattr(exc, "cls") else type(exc).__name__
                    emsg = str(getattr(exc, "attrs", {}).get("args", ""))[:120] if hasattr(exc, "attrs") else str(exc)[:120]
                except Exception:
                    ename, emsg = "Exception", ""
                pcs = [q for q in s.pc if isinstance(q, z3.ExprRef)]
                goal = z3.Not(z3.And(*pcs)) if pcs else False
                meta = {"expect": "proved", "note": "the real code raises %s %s on this path" % (ename, emsg)}
                if rp_any:
                    meta["replay"] = rp_any
                s.obligations.append(Obligation("no-exception[%s]" % ename, "exception", goal, list(s.facts), [], meta))
        multi = len(live) > 1
        for k, s in enumerate(live):
            self.paths += 1
            for mode, qn in s.trace:
                self.functions.setdefault(qn, set()).add(mode)
            for n in s.notes:
                if n not in self.notes:
                    self.notes.append(n)
            seen = set()
            allnames = self.__dict__.setdefault("_allnames", set())
            rename = {}
            for ob in s.obligations:
                if ob.goal is True and ob.kind == "safety":
                    continue
                nm = "%s/%s/%s" % (self.prop, group, ob.name)
                if multi:
                    nm += "/path=%d" % k
                base, j = nm, 1
                while nm in seen or nm in allnames:
                    j += 1
                    nm = "%s~%d" % (base, j)
                seen.add(nm)
                allnames.add(nm)
                rename[ob.name] = nm
                ob.name = nm
                self.obligations.append(ob)
            for ob in s.obligations:
                if ob.meta and ob.meta.get("hint_obs"):
                    ob.meta["hints"] = (ob.meta.get("hints") or []) + [h.name for h in ob.meta.pop("hint_obs")]
                    continue
                if ob.meta and ob.meta.get("hints"):
                    ob.meta["hints"] = [rename.get(h, h) for h in ob.meta["hints"]]
                if ob.meta and ob.meta.get("parent"):
                    ob.meta["parent"] = rename.get(ob.meta["parent"], ob.meta["parent"])
        return live

    def include(self, module, pattern, label):
        """run the groups of another property's harness whose names match `pattern` under the prefix `label`: the contracts
        this property's obligations instantiate are then discharged by this check as well (a change that breaks such a
        contract is reported by every property whose proof uses it)"""
        if getattr(self, "_include", None) is not None:
            return          # includes of an included harness belong to that property, not to this one
        keep = (list(self.assumptions), list(self.configs), list(self.lemmas), list(self.bounded), list(self.native_results))
        self._include = (label, pattern)
        try:
            module.build(self)
        finally:
            self._include = None
            # the included harness's own narrative (assumptions, bounded stand-ins, lemma texts) stays with its property;
            # its natively decided obligations (exact rational identities on extracted tableaux ...) are kept under the label
            newnat = [nr for nr in self.native_results[len(keep[4]):]
                      if _re_mod.search(pattern, nr["name"].split("/", 1)[1]) and "BOUNDED" not in nr["name"] and "Lean" not in nr["name"]]
            self.assumptions[:], self.configs[:], self.lemmas[:], self.bounded[:] = keep[:4]
            self.native_results[:] = keep[4] + [dict(nr, name="%s/%s/%s" % (self.prop, label, nr["name"].split("/", 1)[1])) for nr in newnat]

    def native(self, name, ok, detail="", replay=None, backend="exact-rational"):
        """record an obligation decided natively (exact rational arithmetic on values
        extracted from the code and verified by an SMT identity elsewhere)"""
        self.native_results.append({"name": "%s/%s" % (self.prop, name), "ok": bool(ok), "detail": detail,
                                    "replay": replay, "backend": backend})

    # -- discharge ---------------------------------------------------------------------
    def finish(self):
        known = load_known()
        meta = {}
        specs = []
        obs = []
        dump = os.environ.get("PYVC_DUMP")
        for ob in self.obligations:
            m = ob.meta or {}
            to = m.get("timeout") or self.timeout
            steps = m.get("steps")
            tiers = m.get("expect", "proved") == "proved"
            if m.get("expect") == "refuted":
                steps = ["z3"]
                to = min(to, 3.0)
            obs.append(ob)
            specs.append((to, steps, tiers, bool(dump and re.search(dump, ob.name))))
        t1 = time.time()
        # obligations whose goal evaluated to a concrete True during symbolic execution (structural facts: object
        # identity, call counts, shapes) are discharged by evaluation, without a solver
        conc = [k for k, ob in enumerate(obs) if ob.goal is True]
        concf = [k for k, ob in enumerate(obs) if ob.goal is False]      # decided false during symbolic execution (typing, shapes)
        sobs = [ob for ob in obs if ob.goal is not True and ob.goal is not False]
        sspecs = [sp for ob, sp in zip(obs, specs) if ob.goal is not True and ob.goal is not False]
        results = discharge.run_obligations(sobs, sspecs)
        for k in concf:
            results[obs[k].name] = {"name": obs[k].name, "status": "refuted", "info": {}, "backend": "evaluation",
                                    "time": 0.0, "log": [], "names": [], "head": "(concrete: evaluated to False)"}
        for k in conc:
            results[obs[k].name] = {"name": obs[k].name, "status": "proved", "info": None, "backend": "evaluation",
                                    "time": 0.0, "log": [], "names": [], "head": "(concrete: evaluated to True)"}
        for ob in obs:
            r = results.get(ob.name) or {}
            meta[ob.name] = (ob, r.get("names") or [], r.get("head") or "")
        solver_wall = time.time() - t1

        violations, undecided, known_hits, vacuous = [], [], [], []
        discharged = 0
        backends = {}
        solver_cpu = 0.0
        samples = []
        n_expected = 0
        status = {n: (results.get(n) or {}).get("status", "unknown") for n in meta}
        tiebreak = []
        for name, (ob, names, text) in meta.items():
            r = results.get(name) or {"status": "unknown", "info": "no result", "backend": "-", "time": 0}
            solver_cpu += r.get("time", 0)
            m = ob.meta or {}
            expect = m.get("expect", "proved")
            if expect == "refuted":
                if r["status"] == "proved":
                    hs = m.get("hints") or []
                    if any(status.get(h) != "proved" for h in hs):
                        # a ghost lemma assumed before the canary was NOT proved (it is reported through its dependents): the
                        # hypotheses of this canary contain a claim that failed, its proof says nothing about the harness
                        self.notes.append("canary %s proved under a failed ghost lemma: ignored" % name)
                    else:
                        vacuous.append(name)
                continue
            n_expected += 1
            if m.get("role") == "hint":
                if r["status"] == "proved":
                    discharged += 1
                    backends[r["backend"]] = backends.get(r["backend"], 0) + 1
                else:
                    self.notes.append("hint not proved (%s): %s %s" % (r["status"], name, str(r.get("log"))[:300]))
                    n_expected -= 1      # the parent carries the verdict
                continue
            hints = m.get("hints")
            if m.get("optional") and r["status"] == "unknown":
                # an attempted obligation beyond the claimed level: left open by the solvers -> recorded, not counted
                n_expected -= 1
                self.notes.append("attempted, not discharged (not counted): %s" % name)
                continue
            if hints and (any(status.get(h) != "proved" for h in hints) or r["status"] != "proved"):
                if r["status"] == "refuted" and isinstance(r.get("info"), dict) and (m.get("replay")):
                    # refuted although a ghost hint it may rely on failed: only a model that replays on the real code counts
                    violations.append((name, ob, names, dict(r, require_repro=True)))
                    continue
                tiebreak.append((name, ob, names, r))
                continue
            if r["status"] == "proved":
                discharged += 1
                backends[r["backend"]] = backends.get(r["backend"], 0) + 1
                if len(samples) < 3 and ob.kind != "safety":
                    samples.append({"obligation": name, "backend": r["backend"], "seconds": r["time"],
                                    "smt2_head": text[:600]})
            elif r["status"] == "refuted":
                violations.append((name, ob, names, r))
            elif m.get("optional"):
                # an attempted obligation beyond the claimed level: left open by the solvers -> recorded, not counted
                n_expected -= 1
                self.notes.append("attempted, not discharged (not counted): %s" % name)
            elif m.get("samples") or m.get("replay"):
                tiebreak.append((name, ob, names, r))
            else:
                undecided.append((name, r))
        for name, ob, names, r in tiebreak:
            # bounded tie-break on the real code (DESIGN §4): a concrete failure is a violation,
            # otherwise the obligation stays undecided (never a VIOLATION line)
            bad = self.tie_break(name, ob)
            if bad is not None:
                r2 = dict(r)
                r2["tiebreak_vals"] = bad
                violations.append((name, ob, names, r2))
            else:
                undecided.append((name, {"info": "hint/solver left it open; bounded tie-break found no failing input"}))
        for nr in self.native_results:
            n_expected += 1
            if nr["ok"]:
                discharged += 1
                backends[nr["backend"]] = backends.get(nr["backend"], 0) + 1
            else:
                violations.append((nr["name"], None, None, {"info": {}, "native": nr}))

        # robust counterexamples: second round with the strengthened negation
        t2 = []
        for name, ob, names, r in violations:
            sn = (ob.meta or {}).get("strong_neg") if ob is not None else None
            if sn is not None:
                ob2 = Obligation(name, ob.kind, z3.Not(sn), ob.facts, ob.pc, ob.meta)
                text, nm2 = discharge.to_smt2(ob2, ob.meta.get("watches"))
                t2.append((name, text, 10.0, {"steps": ["z3"]}))
        if t2:
            res2 = discharge.run_all(t2)
            for k, (name, ob, names, r) in enumerate(violations):
                r2 = res2.get(name)
                if r2 and r2["status"] == "refuted" and isinstance(r2.get("info"), dict):
                    violations[k] = (name, ob, names, dict(r, info=r2["info"], strengthened=True))

        # -- violations: replay, known findings --------------------------------------------
        out_lines = []
        nviol = 0
        os.makedirs(os.path.join(VERIF, "replays", self.prop), exist_ok=True)
        for name, ob, names, r in violations:
            kf = match_known(known, self.prop, name)
            if kf is not None:
                known_hits.append((name, kf))
                continue
            path, reproduced = self.write_replay(name, ob, names, r)
            if r.get("require_repro") and not reproduced:
                bad = self.tie_break(name, ob)
                if bad is None:
                    undecided.append((name, {"info": "refuted under an unproved ghost hint; the model does not replay on the real code"}))
                    continue
                r = dict(r, tiebreak_vals=bad)
                path, reproduced = self.write_replay(name, ob, names, r)
            nviol += 1
            suffix = "" if reproduced else " no-failing-input-found"
            out_lines.append("VIOLATION property=%s replay=%s obligation=%s%s" % (self.prop, path, name, suffix))
        printed = set()
        for name, kf in known_hits:
            if kf["id"] not in printed:
                printed.add(kf["id"])
                print("KNOWN-FINDING: property=%s %s [%s]" % (self.prop, kf["what"], kf["id"]))
        for l in out_lines:
            print(l)
        for name, r in undecided:
            print("UNDECIDED obligation=%s reason=%s" % (name, str(r.get("info"))[:120]))
        for name in vacuous:
            print("ENGINE-ERROR vacuous hypotheses: canary %s was proved" % name)
        for e in self.engine_errors:
            print("ENGINE-ERROR %s" % e)

        slow = sorted(((r.get("time", 0), n, r.get("backend")) for n, r in results.items()), reverse=True)[:4]
        if slow and slow[0][0] > 2.0:
            print("slowest: " + "; ".join("%s %.1fs %s" % (n, t, b) for t, n, b in slow))
        total = n_expected - len(known_hits)
        wall = time.time() - self.t0
        fn_list = {k: sorted(v) for k, v in sorted(self.functions.items())}
        ev = {
            "property_id": self.prop, "tier": self.tier, "seed": int(self.seed), "level": "proof",
            "coverage": {
                "obligations": total,
                "discharged": discharged,
                "checker_cmd": "python3-vt /verif/check %s --tier %s" % (self.prop, self.tier),
                "trusted_base": ["pyvc (ast interpreter, numpy model, VC generator) in /verif/pyvc",
                                 "z3 5.1.0 (python API)", "cvc5 1.0.3 (CLI) for z3 unknowns",
                                 "real arithmetic for Python/numpy floats (DESIGN §2.4)"],
                "by_backend": backends,
                "solver_seconds_cpu": round(solver_cpu, 2),
                "solver_seconds_wall": round(solver_wall, 2),
                "paths_explored": self.paths,
                "functions_under_contract": fn_list,
                "configurations": self.configs[:200],
                "canaries": sum(1 for n, (ob, _, _) in meta.items() if (ob.meta or {}).get("expect") == "refuted"),
                "canaries_vacuous": vacuous,
                "undecided": [n for n, _ in undecided],
                "known_findings_suppressed": [{"obligation": n, "finding": kf["id"]} for n, kf in known_hits],
                "violating_obligations": [v[0] for v in violations if match_known(known, self.prop, v[0]) is None],
                "bounded_standins": self.bounded,
                "lemmas": self.lemmas,
                "samples": samples or [{"obligation": n} for n in list(meta)[:3]],
                "notes": self.notes,
                "engine_errors": self.engine_errors,
            },
            "assumptions": self.assumptions,
            "wall_s": round(wall, 2),
            "violations": nviol,
        }
        os.makedirs(os.path.join(VERIF, "evidence"), exist_ok=True)
        with open(os.path.join(VERIF, "evidence", self.prop + ".json"), "w") as f:
            json.dump(ev, f, indent=1, default=str)
        print("%s tier=%s obligations=%d discharged=%d known=%d violations=%d undecided=%d paths=%d wall=%.1fs"
              % (self.prop, self.tier, total, discharged, len(known_hits), nviol, len(undecided), self.paths, wall))
        if self.engine_errors or vacuous or total == 0:
            if total == 0:
                print("ENGINE-ERROR zero obligations generated")
            return 3
        if nviol:
            return 1
        if undecided:
            return 2
        return 0

    def tie_break(self, name, ob):
        m = ob.meta or {}
        spec, samples = m.get("replay"), m.get("samples")
        if not spec:
            return None
        if not samples:
            samples = [{}]      # the replay functions fall back to built-in default inputs
        code = ["import sys", "sys.path.insert(0, %r)" % VERIF, "import replay_lib, json",
                "samples = %r" % (samples,), "args = %r" % (spec.get("args", {}),),
                "for v in samples:",
                "    if not replay_lib.%s(v, **args):" % spec["fn"],
                "        print('TIEBREAK-FAIL ' + json.dumps(v)); sys.exit(1)",
                "sys.exit(0)"]
        try:
            p = subprocess.run([VENV_PY, "-c", "\n".join(code)], capture_output=True, text=True, timeout=600,
                               env=dict(os.environ, PYTHONPATH=REPO))
        except Exception:
            return None
        for l in p.stdout.splitlines():
            if l.startswith("TIEBREAK-FAIL "):
                return json.loads(l[len("TIEBREAK-FAIL "):])
        return None

    # -- replay --------------------------------------------------------------------------
    def write_replay(self, name, ob, names, r):
        d = os.path.join(VERIF, "replays", self.prop)
        path = os.path.join(d, _san(name.split("/", 1)[1] if "/" in name else name) + ".py")
        if "native" in r:
            nr = r["native"]
            spec = nr.get("replay")
            vals = {}
            solver_out = nr.get("detail", "")
        else:
            spec = (ob.meta or {}).get("replay")
            model = r.get("info") or {}
            if not isinstance(model, dict):
                model = {}
            vals = {}
            for ent in ([] if "tiebreak_vals" in r else (names or [])):
                if len(ent) == 2:
                    label, w = ent
                    vals[label] = model.get(w)
                else:
                    vals[ent[0]] = ent[2]
            if "tiebreak_vals" in r:
                vals = r["tiebreak_vals"]
            solver_out = json.dumps({"backend": r.get("backend"), "watched_values": vals,
                                     "log": r.get("log")}, default=str)
        body = ["#!/venv/bin/python", "# replay for obligation %s" % name,
                "# generated by /verif/check; run: /venv/bin/python %s" % path,
                "OBLIGATION = %r" % name,
                "SOLVER_OUTPUT = %r" % solver_out,
                "import sys, os", "sys.path.insert(0, %r)" % VERIF]
        if spec:
            args = dict(spec.get("args", {}))
            body += ["import replay_lib",
                     "vals = %r" % ({k: v for k, v in vals.items()},),
                     "args = %r" % (args,),
                     "ok = replay_lib.%s(vals, **args)" % spec["fn"],
                     "print('REPRODUCED' if not ok else 'NOT-REPRODUCED')",
                     "sys.exit(1 if not ok else 0)"]
        else:
            body += ["print('obligation failed; no concrete replay available for this obligation kind')",
                     "print(SOLVER_OUTPUT)", "print('NOT-REPRODUCED')", "sys.exit(0)"]
        with open(path, "w") as f:
            f.write("\n".join(body) + "\n")
        reproduced = False
        if spec:
            try:
                p = subprocess.run([VENV_PY, path], capture_output=True, text=True, timeout=300,
                                   env=dict(os.environ, PYTHONPATH=REPO))
                reproduced = (p.returncode == 1 and "REPRODUCED" in p.stdout and "NOT-REPRODUCED" not in p.stdout)
                with open(path, "a") as f:
                    f.write("\n# --- output of the replay at generation time ---\n")
                    for l in (p.stdout + p.stderr).splitlines()[-25:]:
                        f.write("# " + l + "\n")
            except Exception as e:
                with open(path, "a") as f:
                    f.write("\n# replay could not be run: %r\n" % (e,))
        return path, reproduced


# --------------------------------------------------------------------------------------
# known findings

def load_known():
    p = os.path.join(VERIF, "known_findings.json")
    if not os.path.exists(p):
        return {"findings": [], "fixed": []}
    return json.load(open(p))


def match_known(known, prop, obligation):
    for kf in known.get("findings", []):
        if kf["property"] != prop:
            continue
        for pat in kf["obligations"]:
            if re.fullmatch(pat, obligation):
                return kf
    return None


def prove_result_safety(label, terms, replay=None):
    """relevance-aware safety of the partial operations the given result terms depend on"""
    from .rangecheck import safety_conditions
    k = 0
    for what, f in safety_conditions(terms):
        prove("%s/safety:%s#%d" % (label, what, k), f, replay=replay, kind="safety")
        k += 1
    return k


class lazy_safety:
    """context: no eager safety obligations (the harness proves relevance-aware safety of the
    results instead, prove_result_safety)"""

    def __enter__(self):
        T._safety_off[0] += 1

    def __exit__(self, *a):
        T._safety_off[0] -= 1


def sum_by_induction(label, S, at, n, closed):
    """lemma 'sum-induction' (Finset.sum_range_succ): if g(0)=0 and g(k+1)-g(k)=f(k) for all
    0<=k<n then sum_{i<n} f(i) = g(n).  The two premises are obligations (generic k); the
    conclusion is then recorded as a fact about the abstract sum symbol S."""
    s = cur()
    k = s.fresh("k", "Int")
    with T.no_safety():
        prove("%s/sum-induction/base" % label, T.treal(closed(0)) == 0, kind="lemma")
        prove("%s/sum-induction/step" % label,
              z3.Implies(z3.And(k >= 0, k < T.tz(n)),
                         T.treal(closed(k + 1)) - T.treal(closed(k)) == T.treal(at(k))), kind="lemma")
        s.add_fact(S == T.treal(closed(T.tz(n))))
    s.notes.append("lemma sum-induction used for " + label)
