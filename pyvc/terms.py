"""Scalar term layer of pyvc.

Concrete numbers are Python ``int`` / ``fractions.Fraction`` (a float literal of the
verified source denotes its exact decimal value, DESIGN §2.4); symbolic numbers are z3
``ArithRef`` of sort Int or Real; truth values are Python ``bool`` or z3 ``BoolRef``.
Transcendental functions are uninterpreted functions whose axioms are instantiated at
the terms that occur and recorded as *facts* in the active session.
"""
from fractions import Fraction
import math
import z3

# --------------------------------------------------------------------------------------
# session: facts (instantiated axioms / assumed contracts), path condition, obligations


class EngineError(Exception):
    """the engine met something outside its subset: never a verdict (exit 3)"""


class Session:
    """state of one symbolic run (one path of one harness)"""

    def __init__(self, name=""):
        self.name = name
        self.facts = []          # z3 BoolRef, universally valid in this run
        self._fact_ids = set()
        self.pc = []             # path condition (branch decisions)
        self.obligations = []    # list of Obligation
        self.counter = {}
        self.trace = []          # functions executed (body / contract / inlined)
        self.notes = []
        self._capture = []       # stack of lists capturing facts (loops)
        self.sqrt_terms = []     # (arg, result) pairs for monotonicity instantiation
        self.rpow_terms = []
        self.watches = []
        self.ghost = {}
        self.lctx = []          # ids of locally pushed branch conditions (arrays.guarded, loop summaries)
        self.idx_subst = None
        self._int_solver = z3.Solver()
        self._int_solver.set("timeout", 50)
        self._decide_cache = {}

    def fresh(self, base, sort="Real"):
        k = self.counter.get(base, 0)
        self.counter[base] = k + 1
        nm = "%s!%d" % (base, k)
        return z3.Int(nm) if sort == "Int" else (z3.Real(nm) if sort == "Real" else z3.Bool(nm))

    def fresh_name(self, base):
        k = self.counter.get(base, 0)
        self.counter[base] = k + 1
        return "%s!%d" % (base, k)

    def add_fact(self, f, trigger=None, tier=None):
        """trigger: a term defined/characterised by this fact; the fact is only handed to the
        solver for goals in whose cone of influence the trigger occurs (discharge.select_facts).
        tier: 0 basic hypotheses (harness assumptions, input invariants), 1 facts of cut
        symbols, 2 instantiated axioms and checked safety conditions."""
        if isinstance(f, z3.ExprRef):
            if trigger is not None:
                TRIGGERS[f.get_id()] = trigger
                _KEEP.append((f, trigger))
            if tier is None:
                tier = 2 if trigger is not None else _default_tier[0]
            if f.get_id() not in TIERS or TIERS[f.get_id()] > tier:
                TIERS[f.get_id()] = tier
                _KEEP.append((f, None))
        if f is True:
            return
        if f is False:
            raise EngineError("inconsistent concrete fact")
        i = f.get_id()
        if i in self._fact_ids and not self._capture:
            return
        self._fact_ids.add(i)
        self.facts.append(f)
        for c in self._capture:
            c.append(f)
        if self._int_solver is not None and _int_only(f):
            lf = _linearize(f)
            if lf is not None:
                self._int_solver.add(lf)
            self._decide_cache.clear()

    def assume(self, f):
        self.add_fact(f)


TRIGGERS = {}     # fact id -> trigger term   (ids stay valid while _KEEP holds the terms)
TIERS = {}
_default_tier = [0]
_KEEP = []
_current = [Session("default")]


def cur():
    return _current[-1]


def push_session(s):
    _current.append(s)


def pop_session():
    _current.pop()


# --------------------------------------------------------------------------------------
# classification helpers

def is_sym(x):
    return isinstance(x, z3.ExprRef)


def is_bool(x):
    return isinstance(x, bool) or isinstance(x, z3.BoolRef)


def is_conc_num(x):
    return isinstance(x, (int, Fraction)) and not isinstance(x, bool)


def is_scalar(x):
    return isinstance(x, (int, Fraction, bool)) or isinstance(x, (z3.ArithRef, z3.BoolRef))


def is_int_valued(x):
    if isinstance(x, bool):
        return True
    if isinstance(x, int):
        return True
    if isinstance(x, Fraction):
        return False
    if isinstance(x, z3.ArithRef):
        return x.is_int()
    return False


def lit(x):
    """exact value of a float literal / Python float: its shortest decimal repr"""
    if isinstance(x, float):
        if x != x or x in (float("inf"), float("-inf")):
            raise EngineError("non-finite float literal")
        return Fraction(repr(x))
    return x


def tz(x):
    """to z3 term"""
    if isinstance(x, z3.ExprRef):
        return x
    if isinstance(x, bool):
        return z3.BoolVal(x)
    if isinstance(x, int):
        return z3.IntVal(x)
    if isinstance(x, Fraction):
        if x.denominator == 1:
            return z3.RealVal(x.numerator)
        return z3.Q(x.numerator, x.denominator)
    if isinstance(x, float):
        return tz(lit(x))
    raise EngineError("cannot convert %r to a term" % (x,))


def treal(x):
    t = tz(x)
    if isinstance(t, z3.BoolRef):
        return z3.If(t, z3.RealVal(1), z3.RealVal(0))
    if t.is_int():
        if z3.is_int_value(t):
            return z3.RealVal(t.as_long())
        return z3.ToReal(t)
    return t


def tnum(x):
    """number-sorted z3 term (bools become 0/1 ints)"""
    t = tz(x)
    if isinstance(t, z3.BoolRef):
        return z3.If(t, z3.IntVal(1), z3.IntVal(0))
    return t


def conc_value(t):
    """Python number of a z3 numeral, else None"""
    if isinstance(t, (int, Fraction)):
        return t
    if z3.is_int_value(t):
        return t.as_long()
    if z3.is_rational_value(t):
        return Fraction(t.numerator_as_long(), t.denominator_as_long())
    return None


def same(a, b):
    """syntactic identity of two values"""
    if is_sym(a) and is_sym(b):
        return a.eq(b)
    if is_sym(a) or is_sym(b):
        return False
    return a == b


def simp(t):
    if is_sym(t):
        t2 = z3.simplify(t)
        v = conc_value(t2)
        if v is not None:
            return v
        if z3.is_true(t2):
            return True
        if z3.is_false(t2):
            return False
        return t2
    return t


# --------------------------------------------------------------------------------------
# arithmetic

def _both_conc(a, b):
    return not is_sym(a) and not is_sym(b)


def _num(a):
    if isinstance(a, float):
        return lit(a)
    if isinstance(a, z3.BoolRef):
        return z3.If(a, z3.IntVal(1), z3.IntVal(0))
    return a


def add(a, b):
    a, b = _num(a), _num(b)
    if _both_conc(a, b):
        return a + b
    if not is_sym(a) and a == 0:
        return b
    if not is_sym(b) and b == 0:
        return a
    return tnum(a) + tnum(b)


def sub(a, b):
    a, b = _num(a), _num(b)
    if _both_conc(a, b):
        return a - b
    if not is_sym(b) and b == 0:
        return a
    return tnum(a) - tnum(b)


def mul(a, b):
    a, b = _num(a), _num(b)
    if _both_conc(a, b):
        return a * b
    if not is_sym(a):
        if a == 0:
            return 0
        if a == 1:
            return b
    if not is_sym(b):
        if b == 0:
            return 0
        if b == 1:
            return a
    return tnum(a) * tnum(b)


def neg(a):
    a = _num(a)
    if not is_sym(a):
        return -a
    return -a


def div(a, b, where="div"):
    """Python true division; safety obligation denominator != 0"""
    a, b = _num(a), _num(b)
    if not is_sym(b):
        if b == 0:
            oblige_safety(where + ":nonzero-denominator", False)
            return cur().fresh("undef")
        if not is_sym(a):
            r = Fraction(a) / Fraction(b)
            return r
        if b == 1:
            return treal(a)
        return treal(a) / treal(b)
    oblige_safety(where + ":nonzero-denominator", b != 0)
    # canonical denominators (linear normal form): equal cell sizes written differently become the same term
    tb = treal(b)
    if _term_size_small(tb) and _no_uf_apps(tb):
        tb = z3.simplify(tb, som=True)
    return treal(a) / tb


def _term_size_small(t, limit=60):
    seen = 0
    st = [t]
    ids = set()
    while st:
        e = st.pop()
        if e.get_id() in ids:
            continue
        ids.add(e.get_id())
        seen += 1
        if seen > limit:
            return False
        st.extend(e.children())
    return True


def _no_uf_apps(t):
    """built from constants only (mesh sizes, origins, counts): no array elements / function values"""
    st = [t]
    ids = set()
    while st:
        e = st.pop()
        if e.get_id() in ids:
            continue
        ids.add(e.get_id())
        if z3.is_app(e) and e.decl().kind() == z3.Z3_OP_UNINTERPRETED and e.num_args() > 0:
            return False
        st.extend(e.children())
    return True


def floordiv(a, b):
    a, b = _num(a), _num(b)
    if _both_conc(a, b):
        return a // b
    if is_int_valued(a) and is_int_valued(b):
        oblige_safety("floordiv:positive-divisor", gt(b, 0))
        return tz(a) / tz(b)     # z3 Int division (Euclidean == floor for b>0)
    raise EngineError("floor division of reals")


def mod(a, b):
    a, b = _num(a), _num(b)
    if _both_conc(a, b):
        return a % b
    if is_int_valued(a) and is_int_valued(b):
        oblige_safety("mod:positive-divisor", gt(b, 0))
        return tz(a) % tz(b)
    raise EngineError("modulo of reals")


def power(a, b, where="pow"):
    a, b = _num(a), _num(b)
    if not is_sym(b) and (isinstance(b, int) or (isinstance(b, Fraction) and b.denominator == 1)):
        n = int(b)
        if abs(n) <= 8:
            if n == 0:
                return 1
            r = a
            for _ in range(abs(n) - 1):
                r = mul(r, a)
            if n < 0:
                return div(1, r, where)
            return r
    if _both_conc(a, b) and isinstance(b, Fraction) and b == Fraction(1, 2):
        return sqrt(a, where)
    return rpow(a, b, where)


# --------------------------------------------------------------------------------------
# comparisons / booleans

def _cmp(a, b, pyop, zop):
    a, b = _num(a), _num(b)
    if _both_conc(a, b):
        return pyop(a, b)
    return simp_bool(zop(tnum(a), tnum(b)))


def simp_bool(t):
    if isinstance(t, bool):
        return t
    if z3.is_true(t):
        return True
    if z3.is_false(t):
        return False
    return t


def lt(a, b):
    return _cmp(a, b, lambda x, y: x < y, lambda x, y: x < y)


def le(a, b):
    return _cmp(a, b, lambda x, y: x <= y, lambda x, y: x <= y)


def gt(a, b):
    return _cmp(a, b, lambda x, y: x > y, lambda x, y: x > y)


def ge(a, b):
    return _cmp(a, b, lambda x, y: x >= y, lambda x, y: x >= y)


def eq(a, b):
    if is_sym(a) and is_sym(b) and a.eq(b):
        return True
    if isinstance(a, (bool, z3.BoolRef)) and isinstance(b, (bool, z3.BoolRef)):
        if _both_conc(a, b):
            return a == b
        return tz(a) == tz(b)
    return _cmp(a, b, lambda x, y: x == y, lambda x, y: x == y)


def ne(a, b):
    return bnot(eq(a, b))


def band(*xs):
    out = []
    for x in xs:
        if x is True:
            continue
        if x is False:
            return False
        out.append(x)
    if not out:
        return True
    if len(out) == 1:
        return out[0]
    return z3.And(*out)


def bor(*xs):
    out = []
    for x in xs:
        if x is False:
            continue
        if x is True:
            return True
        out.append(x)
    if not out:
        return False
    if len(out) == 1:
        return out[0]
    return z3.Or(*out)


def bnot(x):
    if isinstance(x, bool):
        return not x
    return simp_bool(z3.Not(x))


def implies(a, b):
    if a is True:
        return b
    if a is False:
        return True
    if b is True:
        return True
    return z3.Implies(a, tz(b))


_int_only_cache = {}


def _int_only(f):
    """formula over integer terms only (no reals, no uninterpreted functions): index arithmetic"""
    i = f.get_id()
    r = _int_only_cache.get(i)
    if r is not None:
        return r
    ok = True
    seen = set()
    st = [f]
    n = 0
    while st:
        e = st.pop()
        if e.get_id() in seen:
            continue
        seen.add(e.get_id())
        n += 1
        if n > 400:
            ok = False
            break
        if z3.is_quantifier(e):
            ok = False
            break
        if z3.is_app(e):
            if not z3.is_bool(e) and not e.sort() == z3.IntSort():
                ok = False
                break
            if e.decl().kind() == z3.Z3_OP_UNINTERPRETED and e.num_args() > 0:
                ok = False
                break
            k = e.decl().kind()
            # nonlinear index arithmetic (j*nx) is admitted: decide() works on the monomial abstraction (_linearize)
            if k in (z3.Z3_OP_IDIV, z3.Z3_OP_MOD, z3.Z3_OP_REM) and not z3.is_int_value(e.arg(1)):
                ok = False
                break
            st.extend(e.children())
    _int_only_cache[i] = ok
    _KEEP.append((f, None))
    return ok


_lin_cache = {}


def _monomial(e):
    """abstract a product of integer constants (after expansion) by one opaque integer variable"""
    coef, fac = 1, []
    st = [e]
    while st:
        x = st.pop()
        if z3.is_int_value(x):
            coef *= x.as_long()
        elif z3.is_app(x) and x.decl().kind() == z3.Z3_OP_MUL:
            st.extend(x.children())
        elif z3.is_app(x) and x.decl().kind() == z3.Z3_OP_UMINUS:
            coef = -coef
            st.append(x.arg(0))
        elif z3.is_const(x) and x.decl().kind() == z3.Z3_OP_UNINTERPRETED and x.sort() == z3.IntSort():
            fac.append(x.decl().name())
        else:
            return None
    if len(fac) < 2:
        return None
    return coef * z3.Int("mono!" + "*".join(sorted(fac)))


def _linearize(e):
    """integer-only formula with every nonlinear monomial (j*nx, nx*ny) replaced by an opaque integer variable, or
    None when e is not pure index arithmetic.  The abstraction is weaker than e on the fact side and is applied to
    facts and goal alike, so an entailment found on the abstraction holds for the real formulas."""
    i = e.get_id()
    if i in _lin_cache:
        return _lin_cache[i]
    _KEEP.append((e, None))
    r = None
    if z3.is_quantifier(e) or not z3.is_app(e):
        pass
    elif not z3.is_bool(e) and e.sort() != z3.IntSort():
        pass
    elif e.decl().kind() == z3.Z3_OP_UNINTERPRETED and e.num_args() > 0:
        pass
    elif e.num_args() == 0:
        r = e
    else:
        k = e.decl().kind()
        if k == z3.Z3_OP_MUL and sum(1 for c in e.children() if not z3.is_int_value(c)) > 1:
            x = z3.simplify(e, som=True)
            terms = x.children() if z3.is_app(x) and x.decl().kind() == z3.Z3_OP_ADD else [x]
            acc = []
            for t in terms:
                if z3.is_int_value(t) or (z3.is_const(t) and t.sort() == z3.IntSort()):
                    acc.append(t)
                    continue
                m = _monomial(t)
                if m is None:
                    lt = None
                    if z3.is_app(t) and t.decl().kind() == z3.Z3_OP_MUL and \
                            sum(1 for c in t.children() if not z3.is_int_value(c)) <= 1 and t.get_id() != e.get_id():
                        lt = _linearize(t)
                    if lt is None:
                        acc = None
                        break
                    acc.append(lt)
                else:
                    acc.append(m)
            if acc is not None:
                r = acc[0] if len(acc) == 1 else z3.Sum(acc)
        elif k in (z3.Z3_OP_IDIV, z3.Z3_OP_MOD, z3.Z3_OP_REM) and not z3.is_int_value(e.arg(1)):
            pass
        else:
            ch = [_linearize(c) for c in e.children()]
            if all(c is not None for c in ch):
                if all(a.get_id() == b.get_id() for a, b in zip(ch, e.children())):
                    r = e
                else:
                    try:
                        r = e.decl()(*ch)
                    except Exception:
                        r = None
    _lin_cache[i] = r
    if r is not None:
        _KEEP.append((r, None))
    return r


_abs_cache = {}


def abstract_int_products(e):
    """e with every product of integer constants (a*nx, nx*ny, after expansion) replaced by one opaque integer variable.
    The result is implied by e read as a constraint on its models (every model of e extends to one of the abstraction), so a
    set of abstracted hypotheses that is unsatisfiable proves the original set unsatisfiable; nothing else is concluded."""
    i = e.get_id()
    r = _abs_cache.get(i)
    if r is not None:
        return r
    r = e
    if z3.is_app(e) and e.num_args() > 0:
        k = e.decl().kind()
        done = False
        if k == z3.Z3_OP_MUL and e.sort() == z3.IntSort() and sum(1 for c in e.children() if not z3.is_int_value(c)) > 1:
            x = z3.simplify(e, som=True)
            terms = x.children() if z3.is_app(x) and x.decl().kind() == z3.Z3_OP_ADD else [x]
            acc = []
            for t in terms:
                if z3.is_int_value(t) or z3.is_const(t):
                    acc.append(t)
                    continue
                m = _monomial(t)
                if m is None:
                    if z3.is_app(t) and t.decl().kind() == z3.Z3_OP_MUL and \
                            sum(1 for c in t.children() if not z3.is_int_value(c)) <= 1:
                        acc.append(t)
                        continue
                    acc = None
                    break
                acc.append(m)
            if acc is not None:
                r = acc[0] if len(acc) == 1 else z3.Sum(acc)
                done = True
        if not done:
            ch = [abstract_int_products(c) for c in e.children()]
            if any(a.get_id() != b.get_id() for a, b in zip(ch, e.children())):
                try:
                    r = e.decl()(*ch)
                except Exception:
                    r = e
    _abs_cache[i] = r
    _KEEP.append((e, r))
    return r


_rabs_cache = {}
_RMUL = z3.Function("rmul!", z3.RealSort(), z3.RealSort(), z3.RealSort())
_RDIV = z3.Function("rdiv!", z3.RealSort(), z3.RealSort(), z3.RealSort())


def abstract_real_products(e):
    """e with every product of two non-numeral real terms replaced by the uninterpreted rmul!(x, y) (arguments in a fixed
    order, so commutativity is kept) and every division by a non-numeral by rdiv!(x, y).  As for abstract_int_products the
    result is weaker than e: only an `unsat` answer on the abstraction is used.  It decides goals that hold by congruence
    (both sides apply the same arithmetic to terms already known to be equal) without nonlinear reasoning."""
    i = e.get_id()
    r = _rabs_cache.get(i)
    if r is not None:
        return r
    r = e
    if z3.is_app(e) and e.num_args() > 0:
        ch = [abstract_real_products(c) for c in e.children()]
        k = e.decl().kind()
        if k == z3.Z3_OP_MUL and e.sort() == z3.RealSort():
            nums = [c for c in ch if z3.is_rational_value(c) or z3.is_algebraic_value(c)]
            rest = [c for c in ch if not (z3.is_rational_value(c) or z3.is_algebraic_value(c))]
            if len(rest) > 1:
                rest.sort(key=lambda c: c.get_id())
                acc = rest[0]
                for c in rest[1:]:
                    acc = _RMUL(acc, c)
                r = z3.Product(nums + [acc]) if nums else acc
            elif any(a.get_id() != b.get_id() for a, b in zip(ch, e.children())):
                r = e.decl()(*ch)
        elif k == z3.Z3_OP_DIV and not (z3.is_rational_value(ch[1])):
            r = _RDIV(ch[0], ch[1])
        elif any(a.get_id() != b.get_id() for a, b in zip(ch, e.children())):
            try:
                r = e.decl()(*ch)
            except Exception:
                r = e
    _rabs_cache[i] = r
    _KEEP.append((e, r))
    return r


def decide(c):
    """True / False when the integer facts and path condition of the session entail c / not c
    (index arithmetic only), else None.  Keeps slice guards out of the element terms."""
    if isinstance(c, bool):
        return c
    if not _int_only(c):
        return None
    s = cur()
    if s.idx_subst:
        c = z3.substitute(c, *s.idx_subst)      # loop variable := writer iteration (loop summaries)
    c = _linearize(c)
    if c is None:
        return None
    key = (c.get_id(), tuple(q.get_id() for q in s.pc if z3.is_expr(q)))
    _KEEP.append((c, tuple(s.pc)))
    if key in s._decide_cache:
        return s._decide_cache[key]
    sol = s._int_solver
    if sol is None:
        return None
    assum = [_linearize(p) for p in s.pc if _int_only(p)]
    assum = [p for p in assum if p is not None]
    r = None
    if sol.check(*(assum + [z3.Not(c)])) == z3.unsat:
        r = True
    elif sol.check(*(assum + [c])) == z3.unsat:
        r = False
    s._decide_cache[key] = r
    _KEEP.append((c, None))
    return r


def ite(c, a, b):
    if c is True:
        return a
    if c is False:
        return b
    d = decide(c)
    if d is True:
        return a
    if d is False:
        return b
    a, b = _num(a), _num(b)
    if not is_sym(a) and not is_sym(b) and a == b:
        return a
    if is_sym(a) and is_sym(b) and a.get_id() == b.get_id():
        return a
    if isinstance(a, (bool, z3.BoolRef)) and isinstance(b, (bool, z3.BoolRef)):
        return z3.If(c, tz(a), tz(b))
    ta, tb = tnum(a), tnum(b)
    if ta.is_int() != tb.is_int():
        ta, tb = treal(ta), treal(tb)
    return z3.If(c, ta, tb)


def absv(a):
    a = _num(a)
    if not is_sym(a):
        return abs(a)
    return z3.If(a >= 0, a, -a)


def maxv(a, b):
    a, b = _num(a), _num(b)
    if _both_conc(a, b):
        return max(a, b)
    return ite(ge(a, b), a, b)


def minv(a, b):
    a, b = _num(a), _num(b)
    if _both_conc(a, b):
        return min(a, b)
    return ite(le(a, b), a, b)


def signv(a):
    a = _num(a)
    if not is_sym(a):
        return (a > 0) - (a < 0)
    return z3.If(a > 0, z3.IntVal(1), z3.If(a < 0, z3.IntVal(-1), z3.IntVal(0)))


# --------------------------------------------------------------------------------------
# safety obligations (eager)

class Obligation:
    __slots__ = ("name", "kind", "goal", "facts", "pc", "meta")

    def __init__(self, name, kind, goal, facts, pc, meta=None):
        self.name = name
        self.kind = kind
        self.goal = goal
        self.facts = facts
        self.pc = pc
        self.meta = meta or {}


_safety_ctx = ["?"]
_safety_off = [0]


def oblige_safety(what, cond):
    if _safety_off[0]:
        return
    s = cur()
    if cond is True:
        return
    if cond is not False and decide(cond) is True:
        return
    fn = _safety_ctx[-1]
    k = s.counter.get(("safety", fn, what), 0)
    s.counter[("safety", fn, what)] = k + 1
    name = "safety/%s/%s#%d" % (fn, what, k)
    meta = {"expect": "proved"}
    deps = s.ghost.get("active_hints")
    if deps:
        meta["hint_obs"] = list(deps)
    s.obligations.append(Obligation(name, "safety", cond, list(s.facts), list(s.pc), meta))
    # after the check the condition may be assumed (assert-then-assume)
    if cond is not False:
        s.add_fact(z3.Implies(z3.And(*s.pc), cond) if s.pc else cond, tier=2)


class no_safety:
    """context manager: specification-side terms generate no safety obligations"""

    def __enter__(self):
        _safety_off[0] += 1

    def __exit__(self, *a):
        _safety_off[0] -= 1


# --------------------------------------------------------------------------------------
# uninterpreted transcendental functions with instantiated axioms

_R = z3.RealSort()
UF_sqrt = z3.Function("usqrt", _R, _R)
UF_rpow = z3.Function("rpow", _R, _R, _R)
UF_log = z3.Function("ln", _R, _R)
UF_cos = z3.Function("cos", _R, _R)
UF_sin = z3.Function("sin", _R, _R)
PI = z3.Real("pi")


def _isqrt_frac(q):
    if q < 0:
        return None
    n, d = q.numerator, q.denominator
    rn, rd = math.isqrt(n), math.isqrt(d)
    if rn * rn == n and rd * rd == d:
        return Fraction(rn, rd)
    return None


def sqrt(x, where="sqrt"):
    x = _num(x)
    if not is_sym(x):
        r = _isqrt_frac(Fraction(x))
        if r is not None:
            return r
        if x < 0:
            oblige_safety(where + ":sqrt-arg-nonneg", False)
    else:
        oblige_safety(where + ":sqrt-arg-nonneg", x >= 0)
    tx = treal(x)
    s = UF_sqrt(tx)
    ses = cur()
    ses.add_fact(z3.Implies(tx >= 0, z3.And(s >= 0, s * s == tx)), trigger=s)
    ses.add_fact(z3.Implies(tx > 0, s > 0), trigger=s)
    key = s.get_id()
    if key not in ses.ghost.setdefault("sqrt_seen", set()):
        ses.ghost["sqrt_seen"].add(key)
        for (ty, sy) in (ses.sqrt_terms if ses.ghost.get("sqrt_mono") else []):
            ses.add_fact(z3.Implies(z3.And(tx >= 0, ty >= 0),
                                    z3.And((tx <= ty) == (s <= sy), (tx == ty) == (s == sy))))
        ses.sqrt_terms.append((tx, s))
    return s


def rpow(x, y, where="pow"):
    """x**y for a non-integer or symbolic exponent: defined for x > 0"""
    x, y = _num(x), _num(y)
    oblige_safety(where + ":pow-base-positive", gt(x, 0))
    tx, ty = treal(x), treal(y)
    r = UF_rpow(tx, ty)
    ses = cur()
    ses.add_fact(z3.Implies(tx > 0, r > 0), trigger=r)
    ses.add_fact(z3.Implies(z3.And(tx > 0, ty == 0), r == 1), trigger=r)
    ses.add_fact(z3.Implies(z3.And(tx > 0, ty == 1), r == tx), trigger=r)
    ses.add_fact(z3.Implies(tx == 1, r == 1), trigger=r)
    # monotonic in the base w.r.t. 1
    ses.add_fact(z3.Implies(z3.And(tx > 1, ty > 0), r > 1), trigger=r)
    ses.add_fact(z3.Implies(z3.And(tx > 0, tx < 1, ty > 0), r < 1), trigger=r)
    ses.add_fact(z3.Implies(z3.And(tx > 1, ty < 0), r < 1), trigger=r)
    ses.add_fact(z3.Implies(z3.And(tx > 0, tx < 1, ty < 0), r > 1), trigger=r)
    key = r.get_id()
    if key not in ses.ghost.setdefault("rpow_seen", set()):
        ses.ghost["rpow_seen"].add(key)
        for (ox, oy, orr) in ses.rpow_terms:
            # same base: product law instantiations are added on demand (rpow_law)
            ses.add_fact(z3.Implies(z3.And(tx > 0, tx == ox, ty == oy), r == orr))
        ses.rpow_terms.append((tx, ty, r))
    return r


def rpow_mul_law(x, y, z):
    """lemma instance (Real.rpow_mul): (x**y)**z == x**(y*z), x>0"""
    with no_safety():
        x, y, z = treal(x), treal(y), treal(z)
        cur().add_fact(z3.Implies(x > 0, UF_rpow(UF_rpow(x, y), z) == UF_rpow(x, y * z)))


def rpow_add_law(x, y, z):
    """lemma instance (Real.rpow_add): x**y * x**z == x**(y+z), x>0"""
    x, y, z = treal(x), treal(y), treal(z)
    cur().add_fact(z3.Implies(x > 0, UF_rpow(x, y) * UF_rpow(x, z) == UF_rpow(x, y + z)))


def rpow_base_mul_law(x, w, y):
    """lemma instance (Real.mul_rpow): (x*w)**y == x**y * w**y, x,w>0"""
    x, w, y = treal(x), treal(w), treal(y)
    cur().add_fact(z3.Implies(z3.And(x > 0, w > 0), UF_rpow(x * w, y) == UF_rpow(x, y) * UF_rpow(w, y)))


def rpow_inj_law(x, w, y):
    """lemma instance: for y != 0, x**y == w**y <-> x == w (x,w>0); monotone for y>0"""
    x, w, y = treal(x), treal(w), treal(y)
    cur().add_fact(z3.Implies(z3.And(x > 0, w > 0, y > 0),
                              z3.And((x <= w) == (UF_rpow(x, y) <= UF_rpow(w, y)),
                                     (x == w) == (UF_rpow(x, y) == UF_rpow(w, y)))))
    cur().add_fact(z3.Implies(z3.And(x > 0, w > 0, y < 0),
                              z3.And((x <= w) == (UF_rpow(x, y) >= UF_rpow(w, y)),
                                     (x == w) == (UF_rpow(x, y) == UF_rpow(w, y)))))


def log(x, where="log"):
    x = _num(x)
    oblige_safety(where + ":log-arg-positive", gt(x, 0))
    tx = treal(x)
    r = UF_log(tx)
    cur().add_fact(z3.Implies(tx == 1, r == 0), trigger=r)
    return r


def cos(x):
    x = _num(x)
    if not is_sym(x) and x == 0:
        return 1
    tx = treal(x)
    c, s = UF_cos(tx), UF_sin(tx)
    cur().add_fact(c * c + s * s == 1, trigger=c)
    return c


def sin(x):
    x = _num(x)
    if not is_sym(x) and x == 0:
        return 0
    tx = treal(x)
    c, s = UF_cos(tx), UF_sin(tx)
    cur().add_fact(c * c + s * s == 1, trigger=s)
    return s


def pi():
    cur().add_fact(z3.And(PI > z3.Q(314159, 100000), PI < z3.Q(314160, 100000)))
    return PI


# --------------------------------------------------------------------------------------
# optional recording of arithmetic intermediates (range / overflow obligations)

_rec = [None]


def _wrap_rec(fn):
    def g(*a, **k):
        r = fn(*a, **k)
        if _rec[0] is not None and is_sym(r) and not isinstance(r, z3.BoolRef):
            _rec[0].append(r)
        return r
    g.__name__ = fn.__name__
    return g


add = _wrap_rec(add)
sub = _wrap_rec(sub)
mul = _wrap_rec(mul)
div = _wrap_rec(div)
power = _wrap_rec(power)
neg = _wrap_rec(neg)


class record_intermediates:
    def __enter__(self):
        self.old = _rec[0]
        _rec[0] = []
        return _rec[0]

    def __exit__(self, *a):
        _rec[0] = self.old
