"""Lambda arrays: (length, index -> element term).

A SymArray is a *mutable object* (identity = interpreter object identity, so Python
aliasing behaves as in CPython); its content is an immutable closure that is replaced on
mutation.  Slice reads are snapshots; they remember the version of their base and the
engine stops (EngineError) when a snapshot is consumed after its base was mutated, so a
numpy view that would alias is never silently mis-modelled.
"""
import z3
from fractions import Fraction
from . import terms as T
from .terms import EngineError, cur


_rec = [None]      # active loop recorder (loops.py)


_canon_memo = {}


def _poly_order(r):
    """normal form of an expanded integer polynomial: nested products flattened, like monomials combined, monomials
    ordered by their text (z3 orders them by creation time and keeps -1*(b*nx) + b*nx apart)"""
    terms = r.children() if z3.is_app(r) and r.decl().kind() == z3.Z3_OP_ADD else [r]
    acc = {}
    const = 0
    for t in terms:
        coef, fac = 1, []
        st = [t]
        while st:
            x = st.pop()
            if z3.is_int_value(x):
                coef *= x.as_long()
            elif z3.is_app(x) and x.decl().kind() == z3.Z3_OP_MUL:
                st.extend(x.children())
            elif z3.is_app(x) and x.decl().kind() == z3.Z3_OP_UMINUS:
                coef = -coef
                st.append(x.arg(0))
            else:
                fac.append(x)
        if not fac:
            const += coef
            continue
        fac.sort(key=lambda c: c.sexpr())
        key = tuple(c.sexpr() for c in fac)
        if key in acc:
            acc[key] = (acc[key][0] + coef, fac)
        else:
            acc[key] = (coef, fac)
    out = []
    for key in sorted(acc):
        coef, fac = acc[key]
        if coef == 0:
            continue
        m = fac[0] if len(fac) == 1 else z3.Product(fac)
        out.append(m if coef == 1 else coef * m)
    if const != 0 or not out:
        out.insert(0, z3.IntVal(const))
    return out[0] if len(out) == 1 else z3.Sum(out)


def guarded(c, then, other):
    """ite(c, then(), other()) with the guard decided inline when the integer facts settle it, and each branch
    evaluated under its condition (so that the index arithmetic inside can rely on it)"""
    if c is True:
        return then()
    if c is False:
        return other()
    d = T.decide(c)
    if d is True:
        return then()
    if d is False:
        return other()
    s = cur()
    cz = T.tz(c)
    ncz = z3.Not(cz)
    T._KEEP.append((cz, ncz))       # ids of these terms key memo tables: they must never be reused
    s.pc.append(cz)
    s.lctx.append(cz.get_id())
    try:
        v1 = then()
    finally:
        s.pc.pop()
        s.lctx.pop()
    s.pc.append(ncz)
    s.lctx.append(ncz.get_id())
    try:
        v2 = other()
    finally:
        s.pc.pop()
        s.lctx.pop()
    return T.ite(c, v1, v2)


_ite_memo = {}


def _split_ite(i):
    """(c, i1, i2) with i == ite(c, i1, i2) for the first integer if-then-else inside the index term i, else None"""
    k = i.get_id()
    if k in _ite_memo:
        return _ite_memo[k]
    found = None
    st, seen = [i], set()
    while st:
        e = st.pop()
        if e.get_id() in seen:
            continue
        seen.add(e.get_id())
        if z3.is_app(e):
            if e.decl().kind() == z3.Z3_OP_ITE and e.sort() == z3.IntSort():
                found = e
                break
            if e.decl().kind() == z3.Z3_OP_UNINTERPRETED and e.num_args() > 0:
                continue
            st.extend(e.children())
    res = None
    if found is not None:
        res = (found.arg(0), z3.substitute(i, (found, found.arg(1))), z3.substitute(i, (found, found.arg(2))))
    _ite_memo[k] = res
    _ite_memo[("keep", k)] = i
    return res


def _canon_index(i):
    """canonical form of a symbolic index term (n-(i+1) and n-1-i become the same term), so that
    equal elements of the same array are syntactically equal"""
    k = i.get_id()
    r = _canon_memo.get(k)
    if r is None:
        r = z3.simplify(i, som=True)
        v = T.conc_value(r)
        if v is not None:
            r = int(v)
        elif r.sort() == z3.IntSort():
            r = _poly_order(r)
        _canon_memo[k] = r
        _canon_memo[("keep", k)] = i
    return r


def _key(i):
    if isinstance(i, z3.ExprRef):
        return ("z", i.get_id())
    return ("c", i)


class SymArray:
    """1-D array of numbers"""
    ndim = 1

    def __init__(self, length, fn, name=None, base=None, inv=None, dtype="real"):
        self.length = T.simp(length) if T.is_sym(length) else length
        self._fn = fn
        self.version = 0
        self.name = name
        self._base = base          # (SymArray, version) for snapshots of slices
        self._memo = {}
        self.inv = inv             # optional per-index invariant generator: idx -> BoolRef
        self.dtype = dtype
        if _rec[0] is not None:
            _rec[0].on_create(self)

    # -- reading -------------------------------------------------------------------
    def norm_index(self, i):
        """normalise a Python-style index (negative concrete wraps)"""
        if isinstance(i, Fraction):
            if i.denominator != 1:
                raise EngineError("non-integer index")
            i = int(i)
        if isinstance(i, int) and not isinstance(i, bool):
            if i < 0:
                return T.add(self.length, i)
            return i
        if isinstance(i, z3.ArithRef):
            if not i.is_int():
                raise EngineError("real-sorted index")
            return i
        raise EngineError("bad index %r" % (i,))

    def _check_base(self):
        if self._base is not None:
            b, v = self._base
            if b.version != v:
                raise EngineError("slice snapshot of %s used after its base was mutated "
                                  "(numpy view aliasing is not modelled)" % (b.name,))
            b._check_base()

    def at(self, i):
        """element term at index i (no bounds obligation; see get())"""
        sub = getattr(cur(), "idx_subst", None)
        if sub and isinstance(i, z3.ArithRef):
            i = z3.substitute(i, *sub)
        if isinstance(i, z3.ArithRef) and not z3.is_const(i):
            i = _canon_index(i)
        k = _key(i)
        lc = cur().lctx
        if lc:
            k = (k, tuple(lc))      # values simplified under a local branch condition are valid in that context only
        m = self._memo.get(k)
        if m is not None:
            return m
        if isinstance(i, z3.ArithRef) and not z3.is_const(i):
            sp = _split_ite(i)
            if sp is not None:
                # a[ite(c, i1, i2)] = ite(c, a[i1], a[i2]), each branch evaluated under its condition
                c, i1, i2 = sp
                d = T.decide(c)
                if d is True:
                    return self.at(i1)
                if d is False:
                    return self.at(i2)
                return guarded(c, lambda: self.at(i1), lambda: self.at(i2))
        v = self._fn(i)
        if self.inv is not None:
            f = self.inv(i)
            if f is not True and f is not None:
                inr = T.band(T.le(0, i), T.lt(i, self.length))
                cur().add_fact(T.tz(T.implies(inr, f)), tier=getattr(self, "inv_tier", 0))
        self._memo[k] = v
        return v

    def get(self, i, where="index"):
        """a[i] with bounds obligation"""
        self._check_base()
        i = self.norm_index(i)
        T.oblige_safety(where + ":index-in-bounds", T.band(T.le(0, i), T.lt(i, self.length)))
        if _rec[0] is not None:
            _rec[0].log_read(self, i, T.add(i, 1))
        return self.at(i)

    # -- writing -------------------------------------------------------------------
    def _set_fn(self, fn):
        if _rec[0] is not None:
            _rec[0].on_write(self)
        self._fn = fn
        self._memo = {}
        self.version += 1
        self.inv = None

    def set_elem(self, i, v, where="store"):
        i = self.norm_index(i)
        T.oblige_safety(where + ":index-in-bounds", T.band(T.le(0, i), T.lt(i, self.length)))
        old = self._fn
        v = T._num(v)
        if isinstance(v, (SymArray,)):
            raise EngineError("array stored into an element")
        if _rec[0] is not None:
            _rec[0].log_region(self, i, T.add(i, 1))

        def fn(t, i=i, v=v, old=old):
            return T.ite(T.eq(t, i), v, old(t))
        self._set_fn(fn)

    def set_slice(self, lo, hi, step, v, where="store"):
        """a[lo:hi:step] = v   (v scalar or SymArray); bounds already normalised"""
        old = self._fn
        n = slice_len(lo, hi, step)
        if _rec[0] is not None:
            _rec[0].log_region(self, lo, hi, step)
        if isinstance(v, SymArray):
            v._check_base()
            T.oblige_safety(where + ":slice-shape-match", T.eq(v.length, n))
            vf = v._fn
            vat = v.at
        else:
            if not T.is_scalar(v) and not isinstance(v, float):
                raise EngineError("unsupported slice store value %r" % (type(v),))
            v = T._num(v)
            vat = None

        if step == 1:
            def fn(t, old=old):
                c = T.band(T.le(lo, t), T.lt(t, hi))
                return guarded(c, lambda: (vat(T.sub(t, lo)) if vat else v), lambda: old(t))
        else:
            def fn(t, old=old):
                d = T.sub(t, lo)
                w = find_quotient(T.simp(d), step) if T.is_sym(d) and T.is_sym(step) else None
                if w is not None:
                    # explicit Euclidean witness  t - lo = k*step + r  (unique): no div/mod terms
                    k, r = w
                    c = T.band(T.le(lo, t), T.lt(t, hi), T.eq(r, 0))
                    return guarded(c, lambda: (vat(k) if vat else v), lambda: old(t))
                with T.no_safety():
                    c = T.band(T.le(lo, t), T.lt(t, hi), T.eq(T.mod(d, step), 0))
                    if c is False:
                        return old(t)
                    val = vat(T.floordiv(d, step)) if vat else v
                return T.ite(c, val, old(t))
        self._set_fn(fn)

    def set_fancy(self, idx, v, where="store"):
        """a[idx] = v with idx an IndexTable"""
        if not isinstance(idx, IndexTable):
            raise EngineError("fancy store needs an affine index table")
        if _rec[0] is not None and _rec[0].preexisting(self):
            raise EngineError("fancy store inside a symbolic loop")
        old = self._fn
        if isinstance(v, SymArray):
            v._check_base()
            T.oblige_safety(where + ":fancy-shape-match", T.eq(v.length, idx.length))
            vat = v.at
        else:
            v = T._num(v)
            vat = None

        def fn(t, old=old):
            c, k = idx.inverse(t)
            return guarded(c, lambda: (vat(k) if vat else v), lambda: old(t))
        self._set_fn(fn)

    # -- derived -------------------------------------------------------------------
    def copy(self):
        self._check_base()
        if _rec[0] is not None and self._base is None:
            _rec[0].log_read(self, 0, self.length)
        f = self._fn
        a = SymArray(self.length, self.at, name=self.name, dtype=self.dtype)
        # a copy is a value snapshot: capture the current content
        cur_at = self._snapshot_at()
        a._fn = cur_at
        return a

    def _snapshot_at(self):
        fn, memo, inv, ln = self._fn, self._memo, self.inv, self.length
        tier = getattr(self, "inv_tier", 0)

        def at(i):
            sub = getattr(cur(), "idx_subst", None)
            if sub and isinstance(i, z3.ArithRef):
                i = z3.substitute(i, *sub)
            if isinstance(i, z3.ArithRef) and not z3.is_const(i):
                i = _canon_index(i)
            k = _key(i)
            lc = cur().lctx
            if lc:
                k = (k, tuple(lc))
            m = memo.get(k)
            if m is not None:
                return m
            if isinstance(i, z3.ArithRef) and not z3.is_const(i):
                sp = _split_ite(i)
                if sp is not None:
                    c, i1, i2 = sp
                    return guarded(c, lambda: at(i1), lambda: at(i2))
            v = fn(i)
            if inv is not None:
                f = inv(i)
                if f is not True and f is not None:
                    inr = T.band(T.le(0, i), T.lt(i, ln))
                    cur().add_fact(T.tz(T.implies(inr, f)), tier=tier)
            memo[k] = v
            return v
        return at

    def slice(self, lo, hi, step=1, where="slice"):
        """snapshot of a[lo:hi:step]; bounds normalised by caller (norm_slice)"""
        self._check_base()
        if _rec[0] is not None:
            _rec[0].log_read(self, lo, hi)
        at = self._snapshot_at()
        n = slice_len(lo, hi, step)
        if step == 1:
            fn = lambda i: at(T.add(lo, i))
        else:
            fn = lambda i: at(T.add(lo, T.mul(i, step)))
        return SymArray(n, fn, name=(self.name or "?") + "[:]", base=(self, self.version), dtype=self.dtype)

    def norm_slice(self, lo, hi, step, where="slice"):
        """normalise Python slice bounds against the (symbolic) length; emits the
        in-range obligation 0 <= lo <= hi <= len (numpy would clamp silently)"""
        if step is None:
            step = 1
        if isinstance(step, Fraction):
            step = int(step)
        if not T.is_sym(step) and step <= 0:
            raise EngineError("non-positive slice step")
        lo = 0 if lo is None else self.norm_index(lo)
        hi = self.length if hi is None else self.norm_index(hi)
        T.oblige_safety(where + ":slice-in-range",
                        T.band(T.le(0, lo), T.le(lo, hi), T.le(hi, self.length)))
        return lo, hi, step

    def map(self, f, name=None):
        self._check_base()
        at = self._snapshot_at()
        return SymArray(self.length, lambda i: f(at(i)), name=name, dtype=self.dtype)

    def __repr__(self):
        return "<SymArray %s len=%s>" % (self.name, self.length)


def slice_len(lo, hi, step):
    if step == 1:
        return T.simp(T.sub(hi, lo)) if T.is_sym(T.sub(hi, lo)) else T.sub(hi, lo)
    d = T.sub(hi, lo)
    if not T.is_sym(d) and not T.is_sym(step):
        return max(0, -(-d // step))
    # symbolic stride: ceil((hi-lo)/step) characterised by a skolem with its defining facts
    s = cur()
    d = T.simp(d)
    key = ("slen", _key(d), _key(step))
    memo = s.ghost.setdefault("slice_len", {})
    if key in memo:
        return memo[key]
    L = s.fresh("slen", "Int")
    ts, td = T.tz(step), T.tz(d)
    s.add_fact(z3.Implies(z3.And(ts > 0, td >= 0), z3.And(L >= 0, (L - 1) * ts < td, td <= L * ts)))
    memo[key] = L
    return L


def int_consts(t, limit=40):
    """integer constants occurring in a term (candidates for quotient witnesses)"""
    out, seen, st = [], set(), [t]
    while st and len(seen) < 400:
        e = st.pop()
        if e.get_id() in seen:
            continue
        seen.add(e.get_id())
        if z3.is_const(e) and e.decl().kind() == z3.Z3_OP_UNINTERPRETED and e.sort() == z3.IntSort():
            out.append(e)
        st.extend(e.children())
    return out[:limit]


_quot_memo = {}


def find_quotient(d, a):
    """(q, r) with d == q*a + r as a polynomial identity and 0 <= r < a entailed by the integer facts of the
    session, for a candidate quotient q among the integer constants of d (and q+-1); None if not found.
    Replaces a Euclidean-division skolem by an explicit witness (the division is unique)."""
    if not T.is_sym(d):
        # concrete dividend, symbolic divisor
        if T.is_sym(a) and isinstance(d, int):
            if T.decide(T.band(T.le(0, d), T.lt(d, a))) is True:
                return (0, d)
            if d < 0 and T.decide(T.le(-d, a)) is True:
                return (-1, T.add(d, a))
        return None
    key = (d.get_id(), a.get_id() if T.is_sym(a) else a, len(cur().facts), tuple(q.get_id() for q in cur().pc if z3.is_expr(q)))
    if key in _quot_memo:
        return _quot_memo[key]
    res = None
    cands = [z3.IntVal(0)] + list(int_consts(d))
    sym = None
    if T.is_sym(a):
        # divisor  a = s + k  (s a symbol, k an integer): polynomial division of d by s gives the candidate quotient
        az = z3.simplify(T.tz(a), som=True)
        if z3.is_const(az) and not z3.is_int_value(az):
            sym = az
        elif z3.is_app(az) and az.decl().kind() == z3.Z3_OP_ADD and az.num_args() == 2:
            x, y = az.arg(0), az.arg(1)
            if z3.is_int_value(x) and z3.is_const(y):
                sym = y
            elif z3.is_int_value(y) and z3.is_const(x):
                sym = x
    if sym is not None:
        dd = z3.simplify(T.tz(d), som=True)
        terms = dd.children() if z3.is_app(dd) and dd.decl().kind() == z3.Z3_OP_ADD else [dd]
        qs = []
        for t in terms:
            fac = []
            st = [t]
            while st:
                x = st.pop()
                if z3.is_app(x) and x.decl().kind() == z3.Z3_OP_MUL:
                    st.extend(x.children())
                else:
                    fac.append(x)
            hit = [k for k, x in enumerate(fac) if x.eq(sym)]
            if hit:
                rest = [x for k, x in enumerate(fac) if k != hit[0]]
                qs.append(z3.IntVal(1) if not rest else (rest[0] if len(rest) == 1 else z3.Product(rest)))
        if qs:
            cands.insert(0, z3.simplify(z3.Sum(qs) if len(qs) > 1 else qs[0]))
    rems = []
    for c in cands:
        for q in (c, c + 1, c - 1):
            r = z3.simplify(T.tz(d) - q * T.tz(a), som=True)
            rr = T.conc_value(r)
            rterm = rr if rr is not None else r
            rems.append((q, rterm))
            if T.decide(T.band(T.le(0, rterm), T.lt(rterm, a))) is True:
                res = (z3.simplify(q), rterm)
                break
        if res:
            break
    if res is None and T.is_sym(a):
        # conditional witness: the candidate remainder is known to lie in [-a, a) or [0, 2a): borrow / carry one
        for q, r in rems[:9]:
            if not T.is_sym(r):
                continue
            if T.decide(T.band(T.le(T.neg(a), r), T.lt(r, a))) is True:
                neg = r < 0
                res = (z3.If(neg, q - 1, q), z3.If(neg, r + T.tz(a), r))
                break
            if T.decide(T.band(T.le(0, r), T.lt(r, T.mul(2, a)))) is True:
                big = r >= T.tz(a)
                res = (z3.If(big, q + 1, q), z3.If(big, r - T.tz(a), r))
                break
    _quot_memo[key] = res
    _quot_memo[("keep", key)] = (d, a)
    return res


class IndexTable(SymArray):
    """integer array  base + stride*k, k in [0,length): supports inversion for fancy stores"""

    def __init__(self, length, base, stride, name=None):
        self.base_off = base
        self.stride = stride
        SymArray.__init__(self, length, lambda k: T.add(base, T.mul(stride, k)), name=name, dtype="int")

    def inverse(self, t):
        """(condition that t is in the table, position k of t)"""
        st, b = self.stride, self.base_off
        if not T.is_sym(st) and st == 1:
            k = T.sub(t, b)
            return T.band(T.le(0, k), T.lt(k, self.length)), k
        # Euclidean division  t - base = k*stride + r, 0 <= r < stride: explicit witness if one is found, else skolem
        s = cur()
        d = T.sub(t, b)
        if T.is_sym(t) and T.decide(T.gt(st, 0)) is True:
            # hull of the table: [base, base + stride*(length-1)]
            if T.decide(T.lt(t, b)) is True or T.decide(T.gt(t, T.add(b, T.mul(st, T.sub(self.length, 1))))) is True:
                return False, 0
        w = find_quotient(T.simp(d) if T.is_sym(d) else d, st)
        if w is not None:
            k, r = w
            return T.band(T.eq(r, 0), T.le(0, k), T.lt(k, self.length)), k
        memo = s.ghost.setdefault("euclid", {})
        key = (_key(T.simp(d)) if T.is_sym(d) else _key(d), _key(st))
        if key in memo:
            k, r = memo[key]
        else:
            if not T.is_sym(d) and not T.is_sym(st):
                k, r = d // st, d % st
            else:
                import os
                if os.environ.get("PYVC_SKDBG"):
                    print("DBG skolem(table)", T.simp(d), "stride", st, "pc", [str(q)[:60] for q in s.pc][-3:], flush=True)
                k = s.fresh("eq", "Int")
                r = s.fresh("er", "Int")
                s.add_fact(z3.Implies(T.tz(st) > 0,
                                      z3.And(T.tz(d) == k * T.tz(st) + r, r >= 0, r < T.tz(st))))
            memo[key] = (k, r)
        return T.band(T.eq(r, 0), T.le(0, k), T.lt(k, self.length)), k

    def affine(self, mulc=1, addc=0):
        return IndexTable(self.length, T.add(T.mul(self.base_off, mulc), addc), T.mul(self.stride, mulc))


class Sym2D:
    """(k, n) array as k row arrays (k concrete: 2 for vectors)"""
    ndim = 2

    def __init__(self, rows, name=None):
        self.rows = list(rows)
        self.name = name

    @property
    def length(self):
        return self.rows[0].length

    @property
    def nrows(self):
        return len(self.rows)

    def copy(self):
        return Sym2D([r.copy() for r in self.rows], name=self.name)

    def __repr__(self):
        return "<Sym2D %s %dx%s>" % (self.name, len(self.rows), self.length)


# --------------------------------------------------------------------------------------
# constructors

def zeros(n, name="zeros"):
    return SymArray(n, lambda i: 0, name=name)


def full(n, v, name="full"):
    v = T._num(v)
    return SymArray(n, lambda i: v, name=name)


def input_array(name, n, inv=None, sort="Real"):
    """symbolic input array: elements are applications of a fresh uninterpreted function"""
    s = cur()
    nm = s.fresh_name(name)
    f = z3.Function(nm, z3.IntSort(), z3.RealSort() if sort == "Real" else z3.IntSort())
    a = SymArray(n, lambda i: f(T.tz(i)), name=name, inv=inv, dtype="real" if sort == "Real" else "int")
    a.uf = f
    return a


# --------------------------------------------------------------------------------------
# elementwise operations with eager safety obligations

def _len_of(x):
    if isinstance(x, SymArray):
        return x.length
    if isinstance(x, Sym2D):
        return x.length
    return None


def fresh_index(n, tag="j"):
    s = cur()
    j = s.fresh(tag, "Int")
    return j


def elementwise(f, args, name=None, partial=False):
    """apply scalar function f elementwise to args (SymArray / Sym2D / scalars), numpy
    broadcasting restricted to: equal lengths, scalars, and (n,) with (k,n).
    If `partial`, f may emit safety obligations (division, sqrt, pow, log): they are
    generated eagerly, at a fresh index of the *result's* domain (numpy evaluates the
    whole temporary), and the lazily built element terms emit none."""
    if any(isinstance(a, Sym2D) for a in args):
        k = [a.nrows for a in args if isinstance(a, Sym2D)]
        if len(set(k)) != 1:
            raise EngineError("row-count mismatch in 2-D elementwise op")
        rows = []
        for r in range(k[0]):
            sub = [a.rows[r] if isinstance(a, Sym2D) else a for a in args]
            rows.append(elementwise(f, sub, name, partial))
        return Sym2D(rows, name=name)
    arrs = [a for a in args if isinstance(a, SymArray)]
    if not arrs:
        return f(*[T.lit(a) for a in args])
    n = arrs[0].length
    for a in arrs:
        a._check_base()
        if _rec[0] is not None and a._base is None:
            _rec[0].log_read(a, 0, a.length)
    for a in arrs[1:]:
        if a.length is not n and not T.same(a.length, n):
            c = T.eq(a.length, n)
            if c is not True:
                # numpy broadcasting of length-1 arrays is not used by the verified code
                T.oblige_safety("elementwise:shape-match", c)
    ats = [a._snapshot_at() if isinstance(a, SymArray) else None for a in args]
    consts = [None if isinstance(a, SymArray) else T.lit(a) for a in args]
    nargs = len(args)

    def vals(i):
        return [ats[k](i) if ats[k] is not None else consts[k] for k in range(nargs)]

    if partial and not T._safety_off[0]:
        s = cur()
        j = s.fresh("j", "Int")
        inr = T.band(T.le(0, j), T.lt(j, n))
        s.pc.append(T.tz(inr))
        try:
            f(*vals(j))
        finally:
            s.pc.pop()

    def fn(i):
        with T.no_safety():
            return f(*vals(i))
    return SymArray(n, fn, name=name)
