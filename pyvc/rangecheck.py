"""Range (overflow) obligations: every arithmetic intermediate that the result depends on
stays below the largest double.  An intermediate inside an unselected branch of
np.where / minimum / maximum / abs does not influence the result (numpy evaluates it but
discards it), so each intermediate carries the condition under which it is selected."""
import z3

_ARITH = {z3.Z3_OP_ADD, z3.Z3_OP_SUB, z3.Z3_OP_MUL, z3.Z3_OP_DIV, z3.Z3_OP_UMINUS, z3.Z3_OP_POWER}


def relevant_intermediates(root):
    order = []
    seen = set()
    stack = [(root, False)]
    while stack:
        e, done = stack.pop()
        if done:
            order.append(e)
            continue
        if e.get_id() in seen:
            continue
        seen.add(e.get_id())
        stack.append((e, True))
        for c in e.children():
            stack.append((c, False))
    order.reverse()          # parents before children
    rel = {root.get_id(): [z3.BoolVal(True)]}
    out = []
    for e in order:
        conds = rel.get(e.get_id())
        if not conds:
            continue
        R = z3.simplify(z3.Or(*conds)) if len(conds) > 1 else conds[0]
        if z3.is_app(e):
            k = e.decl().kind()
            if k in _ARITH and not z3.is_bool(e):
                out.append((e, R))
            ch = e.children()
            if k == z3.Z3_OP_ITE and len(ch) == 3:
                c, x, y = ch
                rel.setdefault(c.get_id(), []).append(R)
                rel.setdefault(x.get_id(), []).append(z3.And(R, c))
                rel.setdefault(y.get_id(), []).append(z3.And(R, z3.Not(c)))
            else:
                for c in ch:
                    rel.setdefault(c.get_id(), []).append(R)
    return out


def safety_conditions(roots):
    """relevance-aware safety conditions of the partial operations a set of result terms
    depends on: (what, formula) with formula = relevance ==> side condition.  A division by
    zero or sqrt of a negative number inside a branch that np.where / minimum / maximum
    discards does not reach the result."""
    out = []
    seen = set()
    for root in roots:
        if not isinstance(root, z3.ExprRef):
            continue
        order = []
        vis = set()
        stack = [(root, False)]
        while stack:
            e, done = stack.pop()
            if done:
                order.append(e)
                continue
            if e.get_id() in vis:
                continue
            vis.add(e.get_id())
            stack.append((e, True))
            for c in e.children():
                stack.append((c, False))
        order.reverse()
        rel = {root.get_id(): [z3.BoolVal(True)]}
        for e in order:
            conds = rel.get(e.get_id())
            if not conds:
                continue
            R = z3.simplify(z3.Or(*conds)) if len(conds) > 1 else conds[0]
            if not z3.is_app(e):
                continue
            k = e.decl().kind()
            ch = e.children()
            nm = e.decl().name()
            cond = None
            if k == z3.Z3_OP_DIV:
                cond = ("nonzero-denominator", ch[1] != 0)
            elif k == z3.Z3_OP_UNINTERPRETED and nm == "usqrt":
                cond = ("sqrt-arg-nonneg", ch[0] >= 0)
            elif k == z3.Z3_OP_UNINTERPRETED and nm == "rpow":
                cond = ("pow-base-positive", ch[0] > 0)
            elif k == z3.Z3_OP_UNINTERPRETED and nm == "ln":
                cond = ("log-arg-positive", ch[0] > 0)
            if cond is not None:
                key = (cond[1].get_id(), R.get_id())
                if key not in seen:
                    seen.add(key)
                    out.append((cond[0], z3.Implies(R, cond[1])))
            if k == z3.Z3_OP_ITE and len(ch) == 3:
                c, x, y = ch
                rel.setdefault(c.get_id(), []).append(R)
                rel.setdefault(x.get_id(), []).append(z3.And(R, c))
                rel.setdefault(y.get_id(), []).append(z3.And(R, z3.Not(c)))
            else:
                for c in ch:
                    rel.setdefault(c.get_id(), []).append(R)
    return out
