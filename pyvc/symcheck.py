"""Exact check of rational-function identities with sympy (lemma back end for pure algebra:
polynomial identities with many symbols where z3's nonlinear solver wanders).  The z3 terms
must be built from + - * / numerals and constants only."""
import z3
import sympy as sp


def to_sympy(e, cache):
    i = e.get_id()
    if i in cache:
        return cache[i]
    if z3.is_int_value(e):
        r = sp.Integer(e.as_long())
    elif z3.is_rational_value(e):
        r = sp.Rational(e.numerator_as_long(), e.denominator_as_long())
    elif z3.is_app(e):
        k = e.decl().kind()
        if k == z3.Z3_OP_UNINTERPRETED and e.num_args() > 0:
            ch = []
        else:
            ch = [to_sympy(c, cache) for c in e.children()]
        if k == z3.Z3_OP_ADD:
            r = sp.Add(*ch)
        elif k == z3.Z3_OP_MUL:
            r = sp.Mul(*ch)
        elif k == z3.Z3_OP_SUB:
            r = ch[0] - sp.Add(*ch[1:])
        elif k == z3.Z3_OP_UMINUS:
            r = -ch[0]
        elif k == z3.Z3_OP_DIV:
            r = ch[0] / ch[1]
        elif k == z3.Z3_OP_TO_REAL:
            r = ch[0]
        elif k == z3.Z3_OP_UNINTERPRETED and e.num_args() == 0:
            r = sp.Symbol(e.decl().name().replace("!", "_"))
        elif k == z3.Z3_OP_UNINTERPRETED and all(z3.is_int_value(a) for a in e.children()):
            r = sp.Symbol(e.decl().name().replace("!", "_") + "_at_" + "_".join(str(a.as_long()) for a in e.children()))
        elif k == z3.Z3_OP_UNINTERPRETED and e.decl().name() not in ("usqrt", "rpow", "ln", "cos", "sin"):
            # an array element / opaque function value at a symbolic index: an indeterminate
            r = sp.Symbol("t%d_%s" % (e.get_id(), e.decl().name().replace("!", "_")))
        else:
            raise ValueError("not a rational function: %s" % e.decl().name())
    else:
        raise ValueError("unsupported term")
    cache[i] = r
    return r


def rational_identity(lhs, rhs):
    """True iff lhs - rhs is identically zero as a rational function (denominators nonzero)"""
    cache = {}
    d = to_sympy(lhs, cache) - to_sympy(rhs, cache)
    num, den = sp.fraction(sp.together(d))
    return sp.expand(num) == 0
