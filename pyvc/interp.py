"""Symbolic interpreter for the Python subset used by flowdyn (DESIGN §2.3).

It executes the *real* source text (parsed with ``ast`` from the working tree on every
run).  Concrete Python values stay concrete; numbers are ints / Fractions / z3 terms;
numpy arrays are lambda arrays (arrays.py).  Branches on symbolic conditions fork the path
by re-execution with a decision list (Explorer).
"""
import ast
import os
import z3
from fractions import Fraction
from . import terms as T
from .terms import EngineError, cur
from . import arrays as A
from .arrays import SymArray, Sym2D, IndexTable


# --------------------------------------------------------------------------------------
# object model

class PyModule:
    def __init__(self, name, env):
        self.name = name
        self.env = env

    def __repr__(self):
        return "<module %s>" % self.name


class Env:
    __slots__ = ("vars", "parent")

    def __init__(self, parent=None, vars=None):
        self.vars = {} if vars is None else vars
        self.parent = parent

    def lookup(self, name):
        e = self
        while e is not None:
            if name in e.vars:
                return e.vars[name]
            e = e.parent
        raise KeyError(name)

    def has(self, name):
        e = self
        while e is not None:
            if name in e.vars:
                return True
            e = e.parent
        return False


class PyFunc:
    def __init__(self, node, env, defaults, kwdefaults, name, defclass, module):
        self.node = node
        self.env = env
        self.defaults = defaults
        self.kwdefaults = kwdefaults
        self.name = name
        self.defclass = defclass
        self.module = module

    @property
    def qualname(self):
        return "%s::%s%s" % (self.module, (self.defclass + ".") if self.defclass else "", self.name)

    def __repr__(self):
        return "<func %s>" % self.qualname


class PyClass:
    def __init__(self, name, bases, attrs, module):
        self.name = name
        self.bases = bases
        self.attrs = attrs
        self.module = module

    def mro(self):
        out = [self]
        for b in self.bases:
            for c in b.mro():
                if c not in out:
                    out.append(c)
        return out

    def lookup(self, name):
        for c in self.mro():
            if name in c.attrs:
                return c.attrs[name]
        raise KeyError(name)

    def issubclass(self, other):
        return other in self.mro()

    def __repr__(self):
        return "<class %s>" % self.name


class PyObj:
    def __init__(self, cls):
        self.cls = cls
        self.attrs = {}

    def __repr__(self):
        return "<%s object>" % self.cls.name


class BoundMethod:
    def __init__(self, func, self_):
        self.func = func
        self.self_ = self_


class Builtin:
    def __init__(self, name, fn):
        self.name = name
        self.fn = fn

    def __repr__(self):
        return "<builtin %s>" % self.name


class Opaque:
    """placeholder for something outside the verified subset (plotting, scipy ...)"""

    def __init__(self, name):
        self.name = name

    def __repr__(self):
        return "<opaque %s>" % self.name


class PyException(Exception):
    def __init__(self, value):
        Exception.__init__(self, "%r %r" % (value, getattr(value, "attrs", {}).get("args")))
        self.value = value


class ReturnSignal(Exception):
    def __init__(self, v):
        self.v = v


class BreakSignal(Exception):
    pass


class ContinueSignal(Exception):
    pass


class PathAbort(Exception):
    """path infeasible or deliberately cut"""


def _mk_exc_class(name, bases=()):
    return PyClass(name, list(bases), {}, "builtins")


EXC_BASE = _mk_exc_class("Exception")
EXC = {"Exception": EXC_BASE}
for _n in ("NameError", "ValueError", "NotImplementedError", "LookupError", "ImportError",
           "TypeError", "KeyError", "IndexError", "ZeroDivisionError", "AttributeError", "RuntimeError"):
    EXC[_n] = _mk_exc_class(_n, [EXC_BASE])


# --------------------------------------------------------------------------------------

class Interp:
    def __init__(self, repo_root, package="flowdyn"):
        self.root = repo_root
        self.package = package
        self.modules = {}
        self.sources = {}
        self.contracts = {}       # qualname -> contract object with .apply(interp, func, bound)
        self.active_contracts = set()
        self.inline_log = None
        from . import npmodel
        self.np = npmodel.make_numpy(self)
        self.mathmod = npmodel.make_math(self)
        self.builtins = npmodel.make_builtins(self)
        from . import loops
        self.loop_handler = loops.loop_handler
        self.max_unroll = 64
        self.hints = None
        self.attr_log = None      # optional {id(obj): {"obj": obj, "read": [names], "write": [names]}} (ghost: frames)
        self.call_depth = 0

    # -- module loading ---------------------------------------------------------------
    def module_path(self, dotted):
        p = os.path.join(self.root, *dotted.split("."))
        if os.path.isdir(p):
            return os.path.join(p, "__init__.py")
        return p + ".py"

    def load(self, dotted):
        if dotted in self.modules:
            return self.modules[dotted]
        path = self.module_path(dotted)
        if not os.path.exists(path):
            raise EngineError("no module " + dotted)
        src = open(path).read()
        self.sources[dotted] = (path, src)
        tree = ast.parse(src, path)
        env = Env(None, {"__name__": dotted})
        mod = PyModule(dotted, env)
        self.modules[dotted] = mod
        old = getattr(self, "_cur_module", None)
        self._cur_module = dotted
        T._safety_off[0] += 1
        try:
            self.exec_block(tree.body, env)
        finally:
            T._safety_off[0] -= 1
            self._cur_module = old
        return mod

    def import_module(self, dotted):
        if dotted == "numpy":
            return self.np
        if dotted == "math":
            return self.mathmod
        if dotted == "time":
            # wall-clock bookkeeping: havocked reals (outside every contract, DESIGN §2.2)
            return NativeNS("time", {"process_time": Builtin("time.process_time", lambda: cur().fresh("clock")),
                                     "time": Builtin("time.time", lambda: cur().fresh("clock"))})
        if dotted == "copy":
            return NativeNS("copy", {"copy": Builtin("copy.copy", lambda o: self.shallow_copy(o))})
        if dotted.split(".")[0] == self.package:
            return self.load(dotted)
        return Opaque(dotted)

    def shallow_copy(self, o):
        if isinstance(o, PyObj):
            c = PyObj(o.cls)
            c.attrs = dict(o.attrs)
            return c
        if isinstance(o, (list, dict)):
            return o.copy()
        raise EngineError("copy.copy of %r" % (o,))

    def make_exc(self, name, *args):
        o = PyObj(EXC[name])
        o.attrs["args"] = args
        return o

    # -- statements -----------------------------------------------------------------
    def exec_block(self, stmts, env):
        for st in stmts:
            self.exec_stmt(st, env)

    def exec_stmt(self, st, env):
        m = getattr(self, "s_" + st.__class__.__name__, None)
        if m is None:
            raise EngineError("unsupported statement %s at line %d" % (st.__class__.__name__, st.lineno))
        return m(st, env)

    def s_Expr(self, st, env):
        if isinstance(st.value, ast.Constant):
            return  # docstring
        self.eval(st.value, env)

    def s_Pass(self, st, env):
        return

    def s_Import(self, st, env):
        for a in st.names:
            mod = self.import_module(a.name)
            if a.asname:
                env.vars[a.asname] = mod
            else:
                top = a.name.split(".")[0]
                env.vars[top] = self.import_module(top) if "." in a.name else mod

    def s_ImportFrom(self, st, env):
        mod = self.import_module(st.module)
        for a in st.names:
            if a.name == "*":
                if isinstance(mod, PyModule):
                    names = mod.env.vars.get("__all__")
                    if names is None:
                        names = [k for k in mod.env.vars if not k.startswith("_")]
                    for k in names:
                        env.vars[k] = mod.env.vars[k]
                continue
            if isinstance(mod, Opaque):
                env.vars[a.asname or a.name] = Opaque(mod.name + "." + a.name)
            else:
                env.vars[a.asname or a.name] = self.getattr(mod, a.name)

    def s_FunctionDef(self, st, env):
        f = self.make_func(st, env)
        for d in reversed(st.decorator_list):
            dec = self.eval(d, env)
            f = self.call(dec, [f], {})
        env.vars[st.name] = f

    def make_func(self, node, env):
        a = node.args
        defaults = [self.eval(d, env) for d in a.defaults]
        kwdefaults = {k.arg: self.eval(d, env) for k, d in zip(a.kwonlyargs, a.kw_defaults) if d is not None}
        name = getattr(node, "name", "<lambda>")
        return PyFunc(node, env, defaults, kwdefaults, name, getattr(self, "_cur_class", None),
                      getattr(self, "_cur_module", "?"))

    def s_ClassDef(self, st, env):
        bases = [self.eval(b, env) for b in st.bases]
        for b in bases:
            if not isinstance(b, PyClass):
                raise EngineError("class %s derives from a non-interpreted base" % st.name)
        cenv = Env(env)
        oldc = getattr(self, "_cur_class", None)
        self._cur_class = st.name
        try:
            # methods close over the enclosing env, but the class body resolves names in cenv first
            for s in st.body:
                if isinstance(s, ast.FunctionDef):
                    f = self.make_func(s, env)
                    for d in reversed(s.decorator_list):
                        dec = self.eval(d, cenv)
                        f = self.call(dec, [f], {})
                    cenv.vars[self.mangle(s.name, st.name)] = f
                elif isinstance(s, ast.Assign):
                    v = self.eval(s.value, cenv)
                    for t in s.targets:
                        if isinstance(t, ast.Name):
                            cenv.vars[self.mangle(t.id, st.name)] = v
                        else:
                            self.assign(t, v, cenv)
                else:
                    self.exec_stmt(s, cenv)
        finally:
            self._cur_class = oldc
        cls = PyClass(st.name, bases, cenv.vars, getattr(self, "_cur_module", "?"))
        env.vars[st.name] = cls

    @staticmethod
    def mangle(name, cls):
        if cls and name.startswith("__") and not name.endswith("__"):
            return "_" + cls.lstrip("_") + name
        return name

    def s_Return(self, st, env):
        raise ReturnSignal(self.eval(st.value, env) if st.value is not None else None)

    def s_Assign(self, st, env):
        v = self.eval(st.value, env)
        for t in st.targets:
            self.assign(t, v, env)

    def s_AnnAssign(self, st, env):
        if st.value is not None:
            self.assign(st.target, self.eval(st.value, env), env)

    def assign(self, t, v, env):
        if isinstance(t, ast.Name):
            if self.hints is not None and (T._safety_ctx[-1], t.id) in self.hints.hooks:
                v = self.hints.apply(T._safety_ctx[-1], t.id, v, env)
            env.vars[t.id] = v
        elif isinstance(t, (ast.Tuple, ast.List)):
            vals = self.iterate(v)
            if len(vals) != len(t.elts):
                raise PyException(self.make_exc("ValueError", "unpack mismatch"))
            for tt, vv in zip(t.elts, vals):
                self.assign(tt, vv, env)
        elif isinstance(t, ast.Attribute):
            obj = self.eval(t.value, env)
            self.setattr(obj, self.mangle(t.attr, self._class_of_env(env)), v)
        elif isinstance(t, ast.Subscript):
            obj = self.eval(t.value, env)
            idx = self.eval_index(t.slice, env)
            self.setitem(obj, idx, v)
        else:
            raise EngineError("unsupported assignment target")

    def _class_of_env(self, env):
        e = env
        while e is not None:
            c = e.vars.get("__defclass__")
            if c is not None:
                return c
            e = e.parent
        return None

    def s_AugAssign(self, st, env):
        t = st.target
        rhs = self.eval(st.value, env)
        if isinstance(t, ast.Name):
            cur_v = env.lookup(t.id)
            new = self.binop(st.op, cur_v, rhs, inplace=True)
            # the binding may live in an outer scope only for reads; Python rebinds locally
            env.vars[t.id] = new
        elif isinstance(t, ast.Attribute):
            obj = self.eval(t.value, env)
            name = self.mangle(t.attr, self._class_of_env(env))
            cur_v = self.getattr(obj, name)
            self.setattr(obj, name, self.binop(st.op, cur_v, rhs, inplace=True))
        elif isinstance(t, ast.Subscript):
            obj = self.eval(t.value, env)
            idx = self.eval_index(t.slice, env)
            cur_v = self.getitem(obj, idx)
            new = self.binop(st.op, cur_v, rhs, inplace=True)
            if new is cur_v and isinstance(obj, (list, dict)):
                return
            self.setitem(obj, idx, new)
        else:
            raise EngineError("unsupported augmented assignment")

    def s_If(self, st, env):
        c = self.truth(self.eval(st.test, env))
        if self.branch(c, st):
            self.exec_block(st.body, env)
        else:
            self.exec_block(st.orelse, env)

    def s_Raise(self, st, env):
        v = self.eval(st.exc, env) if st.exc is not None else None
        if isinstance(v, PyClass):
            v = self.call(v, [], {})
        raise PyException(v)

    def s_Try(self, st, env):
        try:
            self.exec_block(st.body, env)
        except PyException as e:
            for h in st.handlers:
                if h.type is None:
                    self.exec_block(h.body, env)
                    break
                typ = self.eval(h.type, env)
                if isinstance(e.value, PyObj) and isinstance(typ, PyClass) and e.value.cls.issubclass(typ):
                    if h.name:
                        env.vars[h.name] = e.value
                    self.exec_block(h.body, env)
                    break
            else:
                raise
        else:
            self.exec_block(st.orelse, env)
        finally:
            self.exec_block(st.finalbody, env)

    def s_For(self, st, env):
        it = self.eval(st.iter, env)
        seq = self.iterate(it, allow_symbolic=True)
        if seq is None:
            # symbolic range
            if self.loop_handler is None:
                raise EngineError("loop over a symbolic range at line %d without loop rule" % st.lineno)
            return self.loop_handler(self, st, env, it)
        if len(seq) > self.max_unroll:
            raise EngineError("loop too long to unroll")
        for v in seq:
            self.assign(st.target, v, env)
            try:
                self.exec_block(st.body, env)
            except BreakSignal:
                break
            except ContinueSignal:
                continue
        else:
            self.exec_block(st.orelse, env)

    def s_While(self, st, env):
        n = 0
        while True:
            c = self.truth(self.eval(st.test, env))
            if T.is_sym(c):
                handler = getattr(self, "while_handler", None)
                if handler is None:
                    raise EngineError("while loop with symbolic condition at line %d needs an invariant" % st.lineno)
                return handler(self, st, env)
            if not c:
                break
            n += 1
            if n > self.max_unroll:
                raise EngineError("while loop does not terminate concretely")
            try:
                self.exec_block(st.body, env)
            except BreakSignal:
                break
            except ContinueSignal:
                continue

    def s_Break(self, st, env):
        raise BreakSignal()

    def s_Continue(self, st, env):
        raise ContinueSignal()

    def s_Assert(self, st, env):
        return

    def s_Global(self, st, env):
        raise EngineError("global statement")

    def s_Delete(self, st, env):
        raise EngineError("del statement")

    # -- branching ------------------------------------------------------------------
    def branch(self, c, node=None):
        if isinstance(c, bool):
            return c
        if not isinstance(c, z3.BoolRef):
            raise EngineError("branch on non-boolean %r" % (c,))
        s = cur()
        dec = getattr(s, "decisions", None)
        if dec is None:
            raise EngineError("symbolic branch outside an exploration (line %s)" % getattr(node, "lineno", "?"))
        if s.dpos < len(dec):
            choice = dec[s.dpos]
        else:
            ft = self.feasible(s, c)
            ff = self.feasible(s, z3.Not(c))
            if ft and ff:
                choice = True
                s.newforks.append(list(dec) + [False])
            elif ft:
                choice = True
            elif ff:
                choice = False
            else:
                raise PathAbort()
            dec.append(choice)
        s.dpos += 1
        s.pc.append(c if choice else z3.Not(c))
        return choice

    def feasible(self, s, c):
        sol = z3.Solver()
        sol.set("timeout", 400)
        for f in s.pc:
            sol.add(f)
        sol.add(c)
        # the path condition and the basic hypotheses (tier 0/1 facts: harness assumptions, input
        # invariants, cut facts) are used to prune; 'unknown' keeps the path
        for f in s.facts:
            if T.TIERS.get(f.get_id(), 2) <= 1:
                sol.add(f)
        r = sol.check()
        return r != z3.unsat

    def truth(self, v):
        if isinstance(v, (bool, z3.BoolRef)):
            return v
        if v is None:
            return False
        if isinstance(v, (int, Fraction)):
            return v != 0
        if isinstance(v, z3.ArithRef):
            return v != 0
        if isinstance(v, (list, tuple, dict, str)):
            return len(v) > 0
        if isinstance(v, (PyObj,)):
            try:
                f = v.cls.lookup("__len__")
            except KeyError:
                return True
            return self.truth(self.call(BoundMethod(f, v), [], {}))
        if isinstance(v, (PyFunc, BoundMethod, PyClass, Builtin, PyModule, Opaque, UserFunc)):
            return True
        if isinstance(v, SymArray):
            raise EngineError("truth value of an array")
        raise EngineError("truth of %r" % (v,))

    # -- expressions ----------------------------------------------------------------
    def eval(self, e, env):
        m = getattr(self, "e_" + e.__class__.__name__, None)
        if m is None:
            raise EngineError("unsupported expression %s at line %d" % (e.__class__.__name__, e.lineno))
        return m(e, env)

    def e_Constant(self, e, env):
        v = e.value
        if isinstance(v, float):
            return T.lit(v)
        if isinstance(v, complex):
            raise EngineError("complex literal")
        return v

    def e_Name(self, e, env):
        try:
            return env.lookup(e.id)
        except KeyError:
            pass
        if e.id in self.builtins:
            return self.builtins[e.id]
        if e.id in EXC:
            return EXC[e.id]
        raise PyException(self.make_exc("NameError", e.id))

    def e_Attribute(self, e, env):
        obj = self.eval(e.value, env)
        return self.getattr(obj, self.mangle(e.attr, self._class_of_env(env)))

    def e_Tuple(self, e, env):
        return tuple(self.eval(x, env) for x in e.elts)

    def e_List(self, e, env):
        return [self.eval(x, env) for x in e.elts]

    def e_Dict(self, e, env):
        d = {}
        for k, v in zip(e.keys, e.values):
            if k is None:
                d.update(self.eval(v, env))
            else:
                d[self.eval(k, env)] = self.eval(v, env)
        return d

    def e_Set(self, e, env):
        return set(self.eval(x, env) for x in e.elts)

    def e_JoinedStr(self, e, env):
        return "<fstring>"

    def e_BinOp(self, e, env):
        return self.binop(e.op, self.eval(e.left, env), self.eval(e.right, env))

    def e_UnaryOp(self, e, env):
        v = self.eval(e.operand, env)
        if isinstance(e.op, ast.Not):
            return T.bnot(self.truth(v))
        if isinstance(e.op, ast.USub):
            if isinstance(v, (SymArray, Sym2D)):
                return A.elementwise(T.neg, [v], name="neg")
            return T.neg(v)
        if isinstance(e.op, ast.UAdd):
            return v
        raise EngineError("unsupported unary op")

    def e_BoolOp(self, e, env):
        is_and = isinstance(e.op, ast.And)
        acc = None        # accumulated symbolic truth value
        last = None
        ses = cur()
        npush = 0
        try:
            for x in e.values:
                v = self.eval(x, env)
                tv = self.truth(v)
                if isinstance(tv, bool):
                    if is_and and not tv:
                        return v if acc is None else False
                    if (not is_and) and tv:
                        return v if acc is None else True
                    last = v
                    continue
                acc = tv if acc is None else (T.band(acc, tv) if is_and else T.bor(acc, tv))
                last = tv
                # short-circuit: later operands are evaluated under the guard
                ses.pc.append(T.tz(tv if is_and else T.bnot(tv)))
                npush += 1
        finally:
            for _ in range(npush):
                ses.pc.pop()
        return acc if acc is not None else last

    def e_Compare(self, e, env):
        left = self.eval(e.left, env)
        acc = True
        for op, r in zip(e.ops, e.comparators):
            right = self.eval(r, env)
            c = self.compare(op, left, right)
            if isinstance(c, (SymArray, Sym2D)):
                if len(e.ops) > 1:
                    raise EngineError("chained array comparison")
                return c
            acc = T.band(acc, c)
            left = right
        return acc

    def compare_raw(self, op, a, b):
        if isinstance(a, (SymArray, Sym2D)) or isinstance(b, (SymArray, Sym2D)):
            f = {ast.Lt: T.lt, ast.LtE: T.le, ast.Gt: T.gt, ast.GtE: T.ge, ast.Eq: T.eq, ast.NotEq: T.ne}[type(op)]
            return A.elementwise(f, [a, b], name="cmp")
        return None

    def compare(self, op, a, b):
        r = self.compare_raw(op, a, b)
        if r is not None:
            return r
        if isinstance(op, (ast.Is, ast.IsNot)):
            same = (a is b) or (a is None and b is None) or \
                   (isinstance(a, (bool, int, str)) and isinstance(b, (bool, int, str)) and type(a) == type(b) and a == b)
            return same if isinstance(op, ast.Is) else not same
        if isinstance(op, (ast.In, ast.NotIn)):
            if isinstance(b, (list, tuple, dict, set, str)) or isinstance(b, type({}.keys())):
                r = a in b
            else:
                raise EngineError("unsupported 'in' container")
            return r if isinstance(op, ast.In) else not r
        num = T.is_scalar(a) and T.is_scalar(b) or isinstance(a, float) or isinstance(b, float)
        if num:
            a, b = T.lit(a), T.lit(b)
            if isinstance(op, ast.Lt):
                return T.lt(a, b)
            if isinstance(op, ast.LtE):
                return T.le(a, b)
            if isinstance(op, ast.Gt):
                return T.gt(a, b)
            if isinstance(op, ast.GtE):
                return T.ge(a, b)
            if isinstance(op, ast.Eq):
                return T.eq(a, b)
            if isinstance(op, ast.NotEq):
                return T.ne(a, b)
        # generic concrete comparison (strings, types, None ...)
        if isinstance(op, ast.Eq):
            return self.generic_eq(a, b)
        if isinstance(op, ast.NotEq):
            return not self.generic_eq(a, b)
        raise EngineError("unsupported comparison of %r and %r" % (a, b))

    def generic_eq(self, a, b):
        if T.is_sym(a) or T.is_sym(b):
            raise EngineError("symbolic generic equality")
        try:
            return bool(a == b)
        except Exception:
            return a is b

    def e_IfExp(self, e, env):
        c = self.truth(self.eval(e.test, env))
        if isinstance(c, bool):
            return self.eval(e.body if c else e.orelse, env)
        # symbolic scalar condition: evaluate both, merge when numeric, else fork
        if self.branch(c, e):
            return self.eval(e.body, env)
        return self.eval(e.orelse, env)

    def e_Lambda(self, e, env):
        return self.make_func(e, env)

    def e_ListComp(self, e, env):
        out = []
        self._comp(e.generators, 0, env, lambda en: out.append(self.eval(e.elt, en)))
        return out

    def e_GeneratorExp(self, e, env):
        return self.e_ListComp(e, env)

    def e_DictComp(self, e, env):
        out = {}

        def put(en):
            out[self.eval(e.key, en)] = self.eval(e.value, en)
        self._comp(e.generators, 0, env, put)
        return out

    def _comp(self, gens, k, env, emit):
        if k == len(gens):
            emit(env)
            return
        g = gens[k]
        seq = self.iterate(self.eval(g.iter, env))
        for v in seq:
            en = Env(env)
            self.assign(g.target, v, en)
            ok = True
            for c in g.ifs:
                t = self.truth(self.eval(c, en))
                if not isinstance(t, bool):
                    raise EngineError("symbolic filter in comprehension")
                ok = ok and t
            if ok:
                self._comp(gens, k + 1, en, emit)

    def e_Subscript(self, e, env):
        obj = self.eval(e.value, env)
        idx = self.eval_index(e.slice, env)
        return self.getitem(obj, idx)

    def e_Starred(self, e, env):
        raise EngineError("starred expression")

    def eval_index(self, s, env):
        if isinstance(s, ast.Slice):
            return slice(self.eval(s.lower, env) if s.lower else None,
                         self.eval(s.upper, env) if s.upper else None,
                         self.eval(s.step, env) if s.step else None)
        if isinstance(s, ast.Tuple):
            return tuple(self.eval_index(x, env) for x in s.elts)
        return self.eval(s, env)

    def e_Slice(self, e, env):
        return self.eval_index(e, env)

    def e_Call(self, e, env):
        f = self.eval(e.func, env)
        args = []
        for a in e.args:
            if isinstance(a, ast.Starred):
                args.extend(self.iterate(self.eval(a.value, env)))
            else:
                args.append(self.eval(a, env))
        kwargs = {}
        for k in e.keywords:
            if k.arg is None:
                kwargs.update(self.eval(k.value, env))
            else:
                kwargs[k.arg] = self.eval(k.value, env)
        self._call_node = e
        return self.call(f, args, kwargs)

    # -- iteration ------------------------------------------------------------------
    def iterate(self, it, allow_symbolic=False):
        if isinstance(it, (list, tuple)):
            return list(it)
        if isinstance(it, dict):
            return list(it.keys())
        if isinstance(it, (set, frozenset)):
            return sorted(it)
        if isinstance(it, str):
            return list(it)
        if isinstance(it, type({}.keys())) or isinstance(it, type({}.values())) or isinstance(it, type({}.items())):
            return list(it)
        if isinstance(it, SymRange):
            if it.concrete():
                return list(range(it.lo, it.hi, it.step))
            if allow_symbolic:
                return None
            raise EngineError("symbolic range cannot be materialised")
        if isinstance(it, range):
            return list(it)
        if isinstance(it, IndexTable) and not T.is_sym(it.base_off) and not T.is_sym(it.stride):
            if not T.is_sym(it.length):
                return [it.at(k) for k in range(it.length)]
            if allow_symbolic and it.base_off == 0 and it.stride == 1:
                return None
        if isinstance(it, SymArray):
            if not T.is_sym(it.length):
                return [it.at(k) for k in range(it.length)]
            raise EngineError("iteration over an array of symbolic length")
        if isinstance(it, Sym2D):
            return list(it.rows)
        if isinstance(it, PyObj):
            try:
                f = it.cls.lookup("__getitem__")
                n = self.call(BoundMethod(it.cls.lookup("__len__"), it), [], {})
                return [self.call(BoundMethod(f, it), [k], {}) for k in range(n)]
            except KeyError:
                pass
        if isinstance(it, (zip, enumerate, map, filter)):
            return list(it)
        raise EngineError("cannot iterate over %r" % (it,))

    # -- attribute access -------------------------------------------------------------
    def _log_attr(self, obj, name, kind):
        ent = self.attr_log.get(id(obj))
        if ent is not None:
            if kind == "read" and name in ent["write"]:
                return
            if name not in ent[kind]:
                ent[kind].append(name)

    def getattr(self, obj, name):
        if isinstance(obj, PyObj):
            if self.attr_log is not None:
                self._log_attr(obj, name, "read")
            if name in obj.attrs:
                return obj.attrs[name]
            if name == "__class__":
                return obj.cls
            if name == "__dict__":
                return obj.attrs
            try:
                v = obj.cls.lookup(name)
            except KeyError:
                raise PyException(self.make_exc("AttributeError", "%s has no attribute %s" % (obj.cls.name, name)))
            if isinstance(v, PyFunc):
                return BoundMethod(v, obj)
            return v
        if isinstance(obj, PyClass):
            if name == "__name__":
                return obj.name
            try:
                return obj.lookup(name)
            except KeyError:
                raise PyException(self.make_exc("AttributeError", "class %s has no attribute %s" % (obj.name, name)))
        if isinstance(obj, PyModule):
            if name in obj.env.vars:
                return obj.env.vars[name]
            # submodule access (flowdyn.field after import flowdyn.field)
            sub = obj.name + "." + name
            if os.path.exists(self.module_path(sub)):
                return self.load(sub)
            raise PyException(self.make_exc("AttributeError", "module %s has no attribute %s" % (obj.name, name)))
        if isinstance(obj, PyFunc):
            if name == "__name__":
                return obj.name
            raise EngineError("attribute %s of function" % name)
        if isinstance(obj, NativeNS):
            return obj.get(name)
        if isinstance(obj, (SymArray, Sym2D)):
            from . import npmodel
            return npmodel.array_attr(self, obj, name)
        if isinstance(obj, Opaque):
            return Opaque(obj.name + "." + name)
        if isinstance(obj, (list, dict, str, tuple, set)):
            return NativeMethod(obj, name)
        if isinstance(obj, (int, Fraction)) or T.is_sym(obj):
            from . import npmodel
            return npmodel.scalar_attr(self, obj, name)
        if isinstance(obj, UserFunc):
            if name == "__name__":
                return obj.name
        raise EngineError("getattr %r . %s" % (obj, name))

    def hasattr(self, obj, name):
        if isinstance(obj, PyObj):
            if self.attr_log is not None:
                self._log_attr(obj, name, "read")
            if name in obj.attrs:
                return True
            try:
                obj.cls.lookup(name)
                return True
            except KeyError:
                return False
        raise EngineError("hasattr on %r" % (obj,))

    def setattr(self, obj, name, v):
        if isinstance(obj, PyObj):
            if A._rec[0] is not None:
                A._rec[0].on_setattr(obj, name)
            if self.attr_log is not None:
                self._log_attr(obj, name, "write")
            obj.attrs[name] = v
            return
        raise EngineError("setattr on %r" % (obj,))

    # -- items --------------------------------------------------------------------------
    def conc_index(self, i):
        if isinstance(i, Fraction):
            if i.denominator == 1:
                return int(i)
            raise PyException(self.make_exc("TypeError", "non-integer index"))
        if T.is_sym(i):
            v = T.conc_value(z3.simplify(i))
            if v is None:
                raise EngineError("symbolic index into a Python sequence")
            return int(v)
        return i

    def getitem(self, obj, idx):
        if isinstance(obj, (list, tuple, str)):
            if isinstance(idx, slice):
                return obj[slice(self.conc_index(idx.start) if idx.start is not None else None,
                                 self.conc_index(idx.stop) if idx.stop is not None else None,
                                 self.conc_index(idx.step) if idx.step is not None else None)]
            try:
                return obj[self.conc_index(idx)]
            except IndexError:
                raise PyException(self.make_exc("IndexError", "list index out of range"))
        if isinstance(obj, dict):
            try:
                return obj[idx]
            except KeyError:
                raise PyException(self.make_exc("KeyError", idx))
        if isinstance(obj, SymArray):
            if isinstance(idx, slice):
                lo, hi, st = obj.norm_slice(idx.start, idx.stop, idx.step)
                return obj.slice(lo, hi, st)
            if isinstance(idx, SymArray):
                return self.gather(obj, idx)
            if isinstance(idx, tuple):
                raise PyException(self.make_exc("IndexError", "too many indices for array"))
            return obj.get(idx)
        if isinstance(obj, Sym2D):
            if isinstance(idx, tuple) and len(idx) == 2:
                r, c = idx
                if isinstance(r, slice) and r == slice(None, None, None):
                    rows = [self.getitem(row, c) for row in obj.rows]
                    if all(isinstance(x, SymArray) for x in rows):
                        return Sym2D(rows)
                    return A.SymArray(len(rows), lambda i, rows=rows: rows[i], name="col")
                r = self.conc_index(r)
                if isinstance(c, slice) and c == slice(None, None, None):
                    return obj.rows[r]          # a view in numpy: same object here
                return self.getitem(obj.rows[r], c)
            if isinstance(idx, (int, Fraction)) or T.is_sym(idx):
                return obj.rows[self.conc_index(idx)]
            raise EngineError("unsupported 2-D index %r" % (idx,))
        if isinstance(obj, PyObj):
            f = obj.cls.lookup("__getitem__")
            return self.call(BoundMethod(f, obj), [idx], {})
        from . import npmodel
        if isinstance(obj, npmodel.SymMatrix):
            return obj.getitem(idx)
        raise EngineError("getitem on %r" % (obj,))

    def gather(self, arr, idx):
        arr._check_base()
        idx._check_base()
        at = arr._snapshot_at()
        iat = idx._snapshot_at()
        n = arr.length
        if not T._safety_off[0]:
            s = cur()
            j = s.fresh("j", "Int")
            inr = T.band(T.le(0, j), T.lt(j, idx.length))
            s.pc.append(T.tz(inr))
            try:
                v = iat(j)
                T.oblige_safety("gather:index-in-bounds", T.band(T.le(0, v), T.lt(v, n)))
            finally:
                s.pc.pop()
        return SymArray(idx.length, lambda k: at(iat(k)), name="gather")

    def setitem(self, obj, idx, v):
        if isinstance(obj, list):
            if isinstance(idx, slice):
                raise EngineError("list slice store")
            try:
                obj[self.conc_index(idx)] = v
            except IndexError:
                raise PyException(self.make_exc("IndexError", "list assignment index out of range"))
            return
        if isinstance(obj, dict):
            obj[idx] = v
            return
        if isinstance(obj, SymArray):
            if isinstance(idx, slice):
                lo, hi, st = obj.norm_slice(idx.start, idx.stop, idx.step, where="store")
                if isinstance(v, Sym2D):
                    raise EngineError("2-D value stored in 1-D slice")
                obj.set_slice(lo, hi, st, v)
                return
            if isinstance(idx, SymArray):
                obj.set_fancy(idx, v)
                return
            if isinstance(v, (SymArray, Sym2D)):
                raise EngineError("array stored into an element")
            obj.set_elem(idx, T.lit(v))
            return
        if isinstance(obj, Sym2D):
            if isinstance(idx, tuple) and len(idx) == 2:
                r, c = idx
                if isinstance(r, slice) and r == slice(None, None, None):
                    for k, row in enumerate(obj.rows):
                        vv = v.rows[k] if isinstance(v, Sym2D) else v
                        if isinstance(v, SymArray) and not isinstance(c, slice) and not isinstance(c, SymArray):
                            vv = v.at(k)
                        self.setitem(row, c, vv)
                    return
                r = self.conc_index(r)
                self.setitem(obj.rows[r], c, v)
                return
            raise EngineError("unsupported 2-D store index %r" % (idx,))
        from . import npmodel
        if isinstance(obj, npmodel.SymMatrix):
            return obj.setitem(idx, v)
        if isinstance(obj, PyObj):
            f = obj.cls.lookup("__setitem__")
            return self.call(BoundMethod(f, obj), [idx, v], {})
        raise EngineError("setitem on %r" % (obj,))

    # -- operators ---------------------------------------------------------------------
    def binop(self, op, a, b, inplace=False):
        a, b = T.lit(a), T.lit(b)
        from . import npmodel
        if isinstance(a, npmodel.SymMatrix) or isinstance(b, npmodel.SymMatrix):
            return npmodel.matrix_binop(self, op, a, b)
        arr = isinstance(a, (SymArray, Sym2D)) or isinstance(b, (SymArray, Sym2D))
        if arr:
            # affine structure of integer index tables is kept (needed to invert fancy stores)
            if isinstance(a, IndexTable) and T.is_int_valued(b) and not isinstance(b, SymArray) and not inplace:
                if isinstance(op, ast.Mult):
                    return a.affine(mulc=b)
                if isinstance(op, ast.Add):
                    return a.affine(addc=b)
                if isinstance(op, ast.Sub):
                    return a.affine(addc=T.neg(b))
            if isinstance(b, IndexTable) and T.is_int_valued(a) and not isinstance(a, SymArray) and not inplace:
                if isinstance(op, ast.Mult):
                    return b.affine(mulc=a)
                if isinstance(op, ast.Add):
                    return b.affine(addc=a)
            f, partial = self.scalar_op(op)
            r = A.elementwise(f, [a, b], name=type(op).__name__.lower(), partial=partial)
            if inplace and isinstance(a, (SymArray, Sym2D)):
                self.assign_inplace(a, r)
                return a
            return r
        if isinstance(a, (list, tuple, str)) or isinstance(b, (list, tuple, str)):
            if isinstance(op, ast.Add):
                return a + b
            if isinstance(op, ast.Mult):
                if isinstance(a, (list, tuple, str)):
                    return a * self.conc_index(b)
                return self.conc_index(a) * b
            if isinstance(op, ast.Mod) and isinstance(a, str):
                return "<formatted>"
            raise EngineError("unsupported sequence operator")
        if isinstance(a, dict) or isinstance(b, dict):
            raise EngineError("dict operator")
        if a is None or b is None:
            raise PyException(self.make_exc("TypeError", "unsupported operand type(s): NoneType"))
        if not (T.is_scalar(a) and T.is_scalar(b)):
            raise PyException(self.make_exc("TypeError", "unsupported operand types %r %r" % (type(a).__name__, type(b).__name__)))
        f, _ = self.scalar_op(op)
        return f(a, b)

    def assign_inplace(self, a, r):
        if isinstance(a, Sym2D):
            if not isinstance(r, Sym2D):
                raise EngineError("in-place op changes dimensionality")
            for ra, rr in zip(a.rows, r.rows):
                self.assign_inplace(ra, rr)
            return
        if isinstance(r, Sym2D):
            raise PyException(self.make_exc("ValueError", "non-broadcastable output operand"))
        c = T.eq(a.length, r.length)
        if c is not True:
            T.oblige_safety("inplace:shape-match", c)
        a._set_fn(r._fn)

    _fn_name = ["?"]

    def scalar_op(self, op):
        where = T._safety_ctx[-1]
        if isinstance(op, ast.Add):
            return T.add, False
        if isinstance(op, ast.Sub):
            return T.sub, False
        if isinstance(op, ast.Mult):
            return T.mul, False
        if isinstance(op, ast.Div):
            return (lambda x, y: T.div(x, y, "div")), True
        if isinstance(op, ast.Pow):
            return (lambda x, y: T.power(x, y, "pow")), True
        if isinstance(op, ast.FloorDiv):
            return T.floordiv, True
        if isinstance(op, ast.Mod):
            return T.mod, True
        if isinstance(op, ast.BitAnd):
            return (lambda x, y: T.band(x, y)), False
        if isinstance(op, ast.BitOr):
            return (lambda x, y: T.bor(x, y)), False
        raise EngineError("unsupported operator %s" % type(op).__name__)

    # -- calls ----------------------------------------------------------------------------
    def call(self, f, args, kwargs):
        if isinstance(f, BoundMethod):
            return self.call(f.func, [f.self_] + list(args), kwargs)
        if isinstance(f, PyFunc):
            return self.call_pyfunc(f, args, kwargs)
        if isinstance(f, PyClass):
            if f.issubclass(EXC_BASE):
                o = PyObj(f)
                o.attrs["args"] = tuple(args)
                return o
            o = PyObj(f)
            try:
                init = f.lookup("__init__")
            except KeyError:
                init = None
            if init is not None:
                self.call(init, [o] + list(args), kwargs)
            return o
        if isinstance(f, Builtin):
            return f.fn(*args, **kwargs)
        if isinstance(f, NativeMethod):
            return f.call(self, args, kwargs)
        if isinstance(f, UserFunc):
            return f.call(self, args, kwargs)
        if isinstance(f, Opaque):
            raise EngineError("call of unmodelled external %s" % f.name)
        if f is None:
            raise PyException(self.make_exc("TypeError", "'NoneType' object is not callable"))
        raise EngineError("call of %r" % (f,))

    def bind(self, f, args, kwargs):
        a = f.node.args
        params = [p.arg for p in a.posonlyargs + a.args]
        bound = {}
        args = list(args)
        if len(args) > len(params):
            if a.vararg is None:
                raise PyException(self.make_exc("TypeError", "%s: too many positional arguments" % f.name))
            bound[a.vararg.arg] = tuple(args[len(params):])
            args = args[:len(params)]
        elif a.vararg is not None:
            bound[a.vararg.arg] = ()
        for p, v in zip(params, args):
            bound[p] = v
        kw = dict(kwargs)
        nd = len(f.defaults)
        for i, p in enumerate(params):
            if p in bound:
                if p in kw:
                    raise PyException(self.make_exc("TypeError", "%s: multiple values for %s" % (f.name, p)))
                continue
            if p in kw:
                bound[p] = kw.pop(p)
            else:
                j = i - (len(params) - nd)
                if j >= 0:
                    bound[p] = f.defaults[j]
                else:
                    raise PyException(self.make_exc("TypeError", "%s: missing argument %s" % (f.name, p)))
        for k in a.kwonlyargs:
            if k.arg in kw:
                bound[k.arg] = kw.pop(k.arg)
            elif k.arg in f.kwdefaults:
                bound[k.arg] = f.kwdefaults[k.arg]
            else:
                raise PyException(self.make_exc("TypeError", "missing kw-only argument"))
        if kw:
            if a.kwarg is not None:
                bound[a.kwarg.arg] = kw
            else:
                raise PyException(self.make_exc("TypeError", "%s: unexpected keyword %s" % (f.name, list(kw))))
        elif a.kwarg is not None:
            bound[a.kwarg.arg] = {}
        return bound

    def call_pyfunc(self, f, args, kwargs):
        bound = self.bind(f, args, kwargs)
        qn = f.qualname
        ses = cur()
        c = self.contracts.get(qn)
        if c is not None and qn in self.active_contracts:
            ses.trace.append(("contract", qn))
            return c.apply(self, f, bound)
        ses.trace.append(("body", qn))
        env = Env(f.env, bound)
        if f.defclass:
            env.vars["__defclass__"] = f.defclass
        self.call_depth += 1
        if self.call_depth > 60:
            self.call_depth = 0
            raise PyException(self.make_exc("RuntimeError", "maximum recursion depth exceeded"))
        T._safety_ctx.append((f.module or "?").split(".")[-1] + "." + qn.split("::")[1])
        old_mod, old_cls = getattr(self, "_cur_module", None), getattr(self, "_cur_class", None)
        self._cur_module, self._cur_class = f.module, f.defclass
        try:
            if isinstance(f.node, ast.Lambda):
                return self.eval(f.node.body, env)
            try:
                self.exec_block(f.node.body, env)
            except ReturnSignal as r:
                return r.v
            return None
        finally:
            T._safety_ctx.pop()
            self._cur_module, self._cur_class = old_mod, old_cls
            self.call_depth = max(0, self.call_depth - 1)


class SymRange:
    def __init__(self, lo, hi, step=1):
        self.lo, self.hi, self.step = lo, hi, step

    def concrete(self):
        return not (T.is_sym(self.lo) or T.is_sym(self.hi) or T.is_sym(self.step))


class NativeNS:
    """namespace of natively implemented functions (numpy, math)"""

    def __init__(self, name, table):
        self.name = name
        self.table = table

    def get(self, name):
        if name not in self.table:
            raise EngineError("%s.%s is not modelled" % (self.name, name))
        return self.table[name]


class NativeMethod:
    """bound method of a native Python container (list/dict/str/tuple)"""

    def __init__(self, obj, name):
        self.obj = obj
        self.name = name

    def call(self, interp, args, kwargs):
        if isinstance(self.obj, str) and self.name == "format":
            return "<formatted>"
        m = getattr(self.obj, self.name, None)
        if m is None:
            raise PyException(interp.make_exc("AttributeError", self.name))
        try:
            return m(*args, **kwargs)
        except KeyError as e:
            raise PyException(interp.make_exc("KeyError", *e.args))
        except IndexError as e:
            raise PyException(interp.make_exc("IndexError", *e.args))
        except TypeError as e:
            raise PyException(interp.make_exc("TypeError", *e.args))


class UserFunc:
    """abstract user-supplied callable (source term, section law, morphing): the harness
    provides a native implementation, typically an uninterpreted function"""

    def __init__(self, name, fn):
        self.name = name
        self.fn = fn
        self.calls = []

    def call(self, interp, args, kwargs):
        self.calls.append(args)
        return self.fn(*args, **kwargs)


# --------------------------------------------------------------------------------------
# path exploration by re-execution

class Explorer:
    def __init__(self, max_paths=512):
        self.max_paths = max_paths

    def explore(self, harness, name=""):
        """run `harness()` once per feasible path; returns the sessions"""
        work = [[]]
        done = []
        while work:
            dec = work.pop()
            ses = T.Session(name)
            ses.decisions = list(dec)
            ses.dpos = 0
            ses.newforks = []
            ses.outcome = None
            T.push_session(ses)
            try:
                try:
                    ses.result = harness()
                    ses.outcome = "ok"
                except PathAbort:
                    ses.outcome = "infeasible"
                except PyException as e:
                    ses.outcome = "raise"
                    ses.exception = e.value
            finally:
                T.pop_session()
            work.extend(ses.newforks)
            done.append(ses)
            if len(done) > self.max_paths:
                raise EngineError("too many paths in " + name)
        return done
