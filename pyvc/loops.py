"""Parallel-map rule for `for` loops over a symbolic range (DESIGN §2.3).

The body is executed once for a generic iteration `c` (all its paths), recording the
regions of pre-existing arrays it writes.  The loop is then summarised by the strongest
invariant of that shape: "index t holds what iteration c_t wrote, where c_t is the unique
iteration whose write region contains t; everything else is as before".  Side conditions
are emitted as obligations (kind 'loop'):
  * write regions of distinct iterations are disjoint,
  * a pre-existing array that is written in the loop is read only inside the iteration's
    own write region (no loop-carried data dependence),
  * the regions are affine in the loop variable (else: engine error, never a verdict).
Scalars / attributes assigned in the body are poisoned after the loop.
"""
import z3
from . import terms as T
from .terms import EngineError, cur, Obligation
from . import arrays as A
from .arrays import SymArray


class Poison:
    def __init__(self, what):
        self.what = what

    def __repr__(self):
        return "<poison %s>" % self.what


class Recorder:
    def __init__(self, parent=None):
        self.parent = parent
        self.saved = {}        # id(arr) -> (arr, fn, memo, version, inv)
        self.created = set()
        self.regions = {}      # id(arr) -> list of region dicts
        self.reads = []        # (arr, lo, hi) reads of arrays (whole: lo=0, hi=len)
        self.attr_saved = {}   # (id(obj), name) -> (obj, had, old)
        self.list_saved = {}

    def on_create(self, arr):
        self.created.add(id(arr))

    def preexisting(self, arr):
        return id(arr) not in self.created

    def on_write(self, arr):
        if not self.preexisting(arr):
            return
        if id(arr) not in self.saved:
            self.saved[id(arr)] = (arr, arr._fn, arr._memo, arr.version, arr.inv)

    def log_region(self, arr, lo, hi, step=1):
        if not self.preexisting(arr):
            return
        self.regions.setdefault(id(arr), []).append({"lo": lo, "hi": hi, "step": step})

    def log_read(self, arr, lo, hi):
        if not self.preexisting(arr):
            return
        self.reads.append((arr, lo, hi))

    def on_setattr(self, obj, name):
        k = (id(obj), name)
        if k not in self.attr_saved:
            self.attr_saved[k] = (obj, name in obj.attrs, obj.attrs.get(name))

    def restore(self):
        for (arr, fn, memo, ver, inv) in self.saved.values():
            arr._fn, arr._memo, arr.inv = fn, memo, inv
            arr.version += 1
        for (obj, had, old) in self.attr_saved.values():
            pass


def _affine(term, c):
    """(alpha, beta) with term == alpha*c + beta, both free of c; else None"""
    if not T.is_sym(term):
        return 0, term
    beta = T.simp(z3.substitute(term, (c, z3.IntVal(0))))
    one = T.simp(z3.substitute(term, (c, z3.IntVal(1))))
    alpha = T.simp(T.sub(one, beta))
    chk = T.simp(T.sub(term, T.add(T.mul(alpha, c), beta)))
    if T.is_sym(chk) or chk != 0:
        # try harder with a solver (nonlinear index terms such as c*(nx+1)+1)
        s = z3.Solver()
        s.set("timeout", 2000)
        s.add(T.tz(term) != T.tz(T.add(T.mul(alpha, c), beta)))
        if s.check() != z3.unsat:
            return None
    for x in (alpha, beta):
        if T.is_sym(x) and _mentions(x, c):
            return None
    return alpha, beta


def _mentions(t, c):
    seen = set()
    st = [t]
    while st:
        e = st.pop()
        if e.get_id() in seen:
            continue
        seen.add(e.get_id())
        if e.eq(c):
            return True
        st.extend(e.children())
    return False


def _subst(v, c, ct):
    if T.is_sym(v):
        return z3.substitute(v, (c, T.tz(ct)))
    return v


def loop_handler(interp, st, env, it):
    from .interp import SymRange, BreakSignal, ContinueSignal, ReturnSignal, PathAbort
    ses = cur()
    if isinstance(it, SymRange):
        lo, hi, step = it.lo, it.hi, it.step
        if step != 1:
            raise EngineError("symbolic range with a step")
    else:   # np.arange(n)
        lo, hi = 0, it.length
    import ast
    if not isinstance(st.target, ast.Name):
        raise EngineError("loop target must be a name for the parallel-map rule")
    c = ses.fresh("c_" + st.target.id, "Int")
    inr = z3.And(T.tz(lo) <= c, c < T.tz(hi))
    fn_name = T._safety_ctx[-1]
    k_loop = ses.counter.get(("loop", fn_name), 0)
    ses.counter[("loop", fn_name)] = k_loop + 1
    tag = "loop/%s#%d" % (fn_name, k_loop)

    rec = Recorder(parent=A._rec[0])
    A._rec[0] = rec
    env_before = dict(env.vars)
    paths = []
    work = [[]]
    pc_len = len(ses.pc)
    old_dctx = (getattr(ses, "decisions", None), getattr(ses, "dpos", 0), getattr(ses, "newforks", None))
    captured_all = []
    try:
        while work:
            dec = work.pop()
            # restore the pre-loop state
            for (arr, fn, memo, ver, inv) in rec.saved.values():
                arr._fn, arr._memo, arr.inv = fn, {}, inv
                arr.version += 1
            for (obj, had, old) in rec.attr_saved.values():
                pass
            env.vars.clear()
            env.vars.update(env_before)
            rec.regions = {}
            del ses.pc[pc_len:]
            ses.pc.append(inr)
            ses.decisions, ses.dpos, ses.newforks = list(dec), 0, []
            cap = []
            ses._capture.append(cap)
            env.vars[st.target.id] = c
            try:
                try:
                    interp.exec_block(st.body, env)
                except ContinueSignal:
                    pass
                except (BreakSignal, ReturnSignal):
                    raise EngineError("break/return inside a symbolic loop")
                except PathAbort:
                    work.extend(ses.newforks)
                    continue
            finally:
                ses._capture.pop()
            work.extend(ses.newforks)
            pcs = list(ses.pc[pc_len + 1:])
            state = {aid: (arr, arr._fn, arr._snapshot_at()) for aid, (arr, _, _, _, _) in rec.saved.items()}
            paths.append({"pc": pcs, "state": state, "regions": rec.regions, "facts": cap})
            captured_all.extend(cap)
            if len(paths) > 64:
                raise EngineError("too many paths in a loop body")
    finally:
        A._rec[0] = rec.parent
        del ses.pc[pc_len:]
        ses.decisions, ses.dpos, ses.newforks = old_dctx
    # restore arrays to the pre-loop content, then install summaries
    for (arr, fn, memo, ver, inv) in rec.saved.values():
        arr._fn, arr._memo, arr.inv = fn, {}, inv
        arr.version += 1
    # scalars assigned in the body are poisoned
    for k in list(env.vars):
        if k not in env_before or env.vars[k] is not env_before.get(k):
            env.vars[k] = Poison("loop-local " + k)
    for k, v in env_before.items():
        if k not in env.vars:
            env.vars[k] = v
        elif isinstance(env.vars[k], Poison) and not _assigned_in(st.body, k):
            env.vars[k] = v
    if rec.attr_saved:
        raise EngineError("object attribute written inside a symbolic loop (%s)" % tag)

    if not paths:
        return
    # -- regions: affine in c, common to all paths (union) --------------------------------
    written = {}
    for p in paths:
        for aid, regs in p["regions"].items():
            for r in regs:
                written.setdefault(aid, [])
                lo_a = _affine(r["lo"], c)
                hi_a = _affine(r["hi"], c)
                if lo_a is None or hi_a is None:
                    raise EngineError("write region not affine in the loop variable (%s)" % tag)
                if r["step"] != 1:
                    raise EngineError("strided write inside a symbolic loop (%s)" % tag)
                width = T.simp(T.sub(T.add(T.mul(hi_a[0], c), hi_a[1]), T.add(T.mul(lo_a[0], c), lo_a[1])))
                if T.is_sym(width) and _mentions(width, c):
                    raise EngineError("write region width depends on the loop variable (%s)" % tag)
                ent = (lo_a[0], lo_a[1], width)
                if not any(T.same(ent[0], e[0]) and T.same(ent[1], e[1]) and T.same(ent[2], e[2]) for e in written[aid]):
                    written[aid].append(ent)
    # -- side conditions ------------------------------------------------------------------
    c2 = ses.fresh("c2", "Int")
    t = ses.fresh("t", "Int")
    inr2 = z3.And(T.tz(lo) <= c2, c2 < T.tz(hi))

    def in_reg(ent, cc, tt):
        a_, b_, w_ = ent
        base = T.add(T.mul(a_, cc), b_)
        return z3.And(T.tz(base) <= tt, tt < T.tz(T.add(base, w_)))

    for aid, ents in written.items():
        arr = rec.saved[aid][0]
        for i1, e1 in enumerate(ents):
            for i2, e2 in enumerate(ents):
                if i2 < i1:
                    continue
                goal = z3.Not(z3.And(inr, inr2, c != c2, in_reg(e1, c, t), in_reg(e2, c2, t)))
                ses.obligations.append(Obligation("%s/disjoint-writes/%s[%d,%d]" % (tag, arr.name, i1, i2), "loop",
                                                  goal, list(ses.facts), list(ses.pc), {"expect": "proved"}))
        for e in ents:
            goal = z3.Implies(z3.And(inr, in_reg(e, c, t)), z3.And(t >= 0, t < T.tz(arr.length)))
            ses.obligations.append(Obligation("%s/write-in-bounds/%s" % (tag, arr.name), "loop",
                                              goal, list(ses.facts), list(ses.pc), {"expect": "proved"}))
    for (arr, rlo, rhi) in rec.reads:
        if id(arr) not in written:
            continue
        for e in written[id(arr)]:
            goal = z3.Not(z3.And(inr, inr2, c != c2, T.tz(rlo) <= t, t < T.tz(rhi), in_reg(e, c2, t)))
            ses.obligations.append(Obligation("%s/no-carried-dependence/%s" % (tag, arr.name), "loop",
                                              goal, list(ses.facts), list(ses.pc), {"expect": "proved"}))

    # -- summaries ------------------------------------------------------------------------
    for aid, ents in written.items():
        arr, old_fn, _, _, old_inv = rec.saved[aid]
        old_at = arr._snapshot_at()
        per_path = [(p["pc"], p["state"][aid][2] if aid in p["state"] else None, p["facts"]) for p in paths]

        def summary(tt, ents=ents, old_at=old_at, per_path=per_path, arr=arr):
            s2 = cur()
            val = old_at(tt)
            for ent in reversed(ents):
                a_, b_, w_ = ent
                # writer iteration of tt:  tt - b = a*ct + r, 0 <= r < a   (a == 0: every iteration)
                if not T.is_sym(a_) and a_ == 0:
                    raise EngineError("loop-invariant write region")
                d = T.sub(tt, b_)
                # hull of the written regions (stride a >= 0): [a*lo + b, a*(hi-1) + b + w); an index outside is untouched
                if (T.is_sym(tt) or T.is_sym(b_) or T.is_sym(a_)) and (T.is_sym(a_) or a_ > 0) and T.decide(T.ge(a_, 0)) is True:
                    below = T.lt(tt, T.add(T.mul(a_, lo), b_))
                    above = T.ge(tt, T.add(T.add(T.mul(a_, T.sub(hi, 1)), b_), w_))
                    if T.decide(below) is True or T.decide(above) is True:
                        continue
                if not T.is_sym(a_) and a_ == 1:
                    ct, r = d, 0
                    if not T.is_sym(w_) and w_ == 1:
                        pass
                    # for a == 1 regions of consecutive iterations overlap unless w <= 1
                else:
                    memo = s2.ghost.setdefault("euclid", {})
                    key = (A._key(T.simp(d)) if T.is_sym(d) else A._key(d), A._key(a_))
                    wq = A.find_quotient(T.simp(d) if T.is_sym(d) else d, a_) if key not in memo else None
                    if wq is not None:
                        ct, r = wq          # explicit witness, valid in the current context only: not memoised here
                    elif key in memo:
                        ct, r = memo[key]
                    elif not T.is_sym(d) and not T.is_sym(a_):
                        ct, r = d // a_, d % a_
                    else:
                        import os
                        if os.environ.get("PYVC_SKDBG"):
                            print("DBG skolem(loop)", T.simp(d), "stride", a_, "pc", [str(q)[:60] for q in s2.pc][-3:], flush=True)
                        ct = s2.fresh("eq", "Int")
                        r = s2.fresh("er", "Int")
                        s2.add_fact(z3.Implies(T.tz(a_) > 0,
                                               z3.And(T.tz(d) == ct * T.tz(a_) + r, r >= 0, r < T.tz(a_))))
                        memo[key] = (ct, r)
                exists = T.band(T.le(lo, ct), T.lt(ct, hi), T.le(0, r), T.lt(r, w_))
                if exists is False:
                    continue
                inner = None
                # context of the element written by iteration ct: the loop variable equals ct and tt lies in its region
                # (the value is used under `exists` only and with c := ct, so inline decisions may rely on both)
                ctx = [c == T.tz(ct)]
                if exists is not True:
                    ctx.append(T.tz(exists))
                T._KEEP.append((ctx[0], ctx[-1]))     # ids of these terms key memo tables: never reused
                for (pcs, at_p, facts_p) in reversed(per_path):
                    if at_p is None:
                        v = old_at(tt)
                    else:
                        cap = []
                        s2._capture.append(cap)
                        s2.pc.extend(ctx)
                        s2.lctx.extend(q.get_id() for q in ctx)
                        osub = getattr(s2, "idx_subst", None)
                        s2.idx_subst = list(osub or []) + [(c, T.tz(ct))]
                        try:
                            v = at_p(tt)
                        finally:
                            s2.idx_subst = osub
                            del s2.pc[-len(ctx):]
                            del s2.lctx[-len(ctx):]
                            s2._capture.pop()
                        for f in cap + facts_p:
                            s2.add_fact(_subst(f, c, ct))
                        v = _subst(v, c, ct)
                    cond = T.band(*[_subst(q, c, ct) for q in pcs]) if pcs else True
                    inner = v if inner is None else T.ite(cond, v, inner)
                val = T.ite(exists, inner, val)
            return val
        arr._set_fn(summary)
        arr.name = arr.name


def _assigned_in(body, name):
    import ast
    for node in body:
        for n in ast.walk(node):
            if isinstance(n, ast.Name) and n.id == name and isinstance(n.ctx, ast.Store):
                return True
    return False
