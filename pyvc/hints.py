"""Ghost hints (DESIGN §3): staged assertions over a function's locals.

  cut(var, facts)        after `var` is assigned, prove `facts(value)` on the real value,
                         then continue with an opaque symbol that only carries those facts;
  rewrite(var, claim)    after `var` is assigned, prove value == claim, then continue with
                         the (simpler) claimed term.

Each hint is an obligation of kind 'hint' against the real code's value.  A hint that is
not proved never is a violation: the obligations that were generated after it depend on
it and become undecided (bounded tie-break on the real code decides, framework.py).  A
hint whose local no longer exists is skipped and reported.
"""
import z3
from . import terms as T
from .terms import cur, Obligation, EngineError
from . import arrays as A
from .arrays import SymArray, Sym2D


class Hints:
    def __init__(self):
        self.hooks = {}      # (function short name, var) -> list of (phase or None, fn)
        self.phase = 0
        self.store = {}      # (phase, var) -> {"real": value, "opaque": value}
        self.used = set()

    def add(self, func, var, fn, phase=None):
        self.hooks.setdefault((func, var), []).append((phase, fn))

    def apply(self, func, var, value, env):
        for ph, fn in self.hooks.get((func, var), []):
            if ph is None or ph == self.phase:
                self.used.add((func, var, ph))
                value = fn(self, value, env)
        return value

    def unused(self):
        out = []
        for (func, var), lst in self.hooks.items():
            for ph, fn in lst:
                if (func, var, ph) not in self.used:
                    out.append("%s.%s@%s" % (func, var, ph))
        return out


def _elem(v, j):
    if isinstance(v, SymArray):
        return v.at(j)
    return v


def _hint_obligation(name, goal):
    s = cur()
    ob = Obligation("hint:" + name, "hint", goal, list(s.facts), list(s.pc),
                    {"expect": "proved", "role": "hint", "watches": list(s.watches), "replay": None,
                     "steps": None, "timeout": None})
    s.obligations.append(ob)
    s.ghost.setdefault("active_hints", []).append(ob)
    return ob


def _length_of(v):
    if isinstance(v, SymArray):
        return v.length
    if isinstance(v, Sym2D):
        return v.length
    return None


def _fresh_j(n):
    s = cur()
    j = s.fresh("hj", "Int")
    if n is not None:
        return j, z3.And(j >= 0, j < T.tz(n))
    return j, z3.BoolVal(True)


def cut(var, facts, name=None, save=None):
    """facts(H, env, E, x) -> z3 formula over the scalar element x of the cut value; env is the
    function's local environment at the assignment, E(v) the element of another local at the
    same index"""
    def hook(H, value, env):
        s = cur()
        label = "%s@%d/cut" % (name or var, H.phase)
        if isinstance(value, Sym2D):
            raise EngineError("cut of a 2-D value")
        n = _length_of(value)
        j, inr = _fresh_j(n)
        H.store[(H.phase, save or var)] = {"real": value}
        with T.no_safety():
            f = facts(H, env, lambda v: T.treal(_elem(v, j)), T.treal(_elem(value, j)))
        if f is not True and f is not None:
            _hint_obligation(label, z3.Implies(inr, f))
        # opaque replacement carrying the facts
        if n is not None:
            op = A.input_array("cut_" + var, n)
            uf = op.uf

            def inv(i, H=H, op=op, env=env):
                with T.no_safety():
                    r = facts(H, env, lambda v: T.treal(_elem(v, i)), uf(T.tz(i)))
                return r
            H.store[(H.phase, save or var)]["opaque"] = op
            op.inv = inv
            op.inv_tier = 1
            return op
        x = s.fresh("cut_" + var)
        H.store[(H.phase, save or var)]["opaque"] = x
        with T.no_safety():
            r = facts(H, env, lambda v: T.treal(v), x)
        if r is not True and r is not None:
            s.add_fact(r, tier=1)
        return x
    return hook


def rewrite(var, claim, name=None, save=None):
    """claim(H, env) -> claimed value (array or scalar) that the real value equals"""
    def hook(H, value, env):
        label = "%s@%d/rewrite" % (name or var, H.phase)
        with T.no_safety():
            claimed = claim(H, env, value)
        if claimed is None:
            return value
        n = _length_of(value)
        j, inr = _fresh_j(n)
        if isinstance(value, Sym2D):
            goal = z3.And(*[T.treal(r.at(j)) == T.treal(_elem(c, j)) for r, c in zip(value.rows, claimed.rows)])
        else:
            goal = T.treal(_elem(value, j)) == T.treal(_elem(claimed, j))
        _hint_obligation(label, z3.Implies(inr, goal))
        H.store[(H.phase, save or var)] = {"real": value, "opaque": claimed}
        if isinstance(value, SymArray) and not isinstance(claimed, (SymArray,)):
            claimed = A.full(n, claimed)
        return claimed
    return hook
