"""Discharge of verification conditions: z3 first, cvc5 for what z3 leaves open.

Each obligation  facts /\\ pc ==> goal  is refuted-negation checked in a worker process
(16-process pool).  Verdicts: 'proved' (unsat), 'refuted' (sat, with model values of the
watched terms), 'unknown'.  `unknown` is never turned into a violation.
"""
import os
import re
import subprocess
import sys
import tempfile
import time
import signal
from concurrent.futures import ProcessPoolExecutor, as_completed
import multiprocessing as mp
import z3

CVC5 = "/usr/bin/cvc5"


def _subterm_ids(e, acc, consts, apps=None):
    stack = [e]
    while stack:
        x = stack.pop()
        i = x.get_id()
        if i in acc:
            continue
        acc.add(i)
        if z3.is_app(x):
            if x.decl().kind() == z3.Z3_OP_UNINTERPRETED:
                if x.num_args() == 0:
                    if "!" in x.decl().name():
                        consts.add(i)
                elif apps is not None:
                    apps.add(x.decl().name())
            stack.extend(x.children())


def select_facts(ob):
    """cone of influence: facts with a trigger term are kept when the trigger occurs in the
    cone; other facts when all their *fresh* constants (generated names contain '!': generic
    indices of other obligations, skolems) occur in it.  Dropping facts is
    sound for 'proved'; a 'refuted' on the filtered query is re-checked on the full one."""
    from .terms import TRIGGERS
    cone, consts, cone_decls = set(), set(), set()
    roots = list(ob.pc)
    if isinstance(ob.goal, z3.ExprRef):
        roots.append(ob.goal)
    for (lbl, t) in ((ob.meta or {}).get("watches") or []):
        pass
    for r in roots:
        _subterm_ids(r, cone, consts, cone_decls)
    info = []
    for f in ob.facts:
        ids, cs, ap = set(), set(), set()
        _subterm_ids(f, ids, cs, ap)
        info.append((f, ids, cs, TRIGGERS.get(f.get_id()), ap))
    chosen = [False] * len(info)
    changed = True
    while changed:
        changed = False
        for k, (f, ids, cs, trig, ap) in enumerate(info):
            if chosen[k]:
                continue
            if trig is not None:
                ok = trig.get_id() in cone
            else:
                # facts about uninterpreted functions (arrays, contract results) none of which occurs in the cone say
                # nothing about the goal (they may enter later, when the cone has grown)
                ok = cs <= consts and (not ap or not ap.isdisjoint(cone_decls))
            if ok:
                chosen[k] = True
                cone |= ids
                consts |= cs
                cone_decls |= ap
                changed = True
    return [info[k][0] for k in range(len(info)) if chosen[k]]


def tier_facts(ob, maxtier):
    from .terms import TIERS
    return [f for f in ob.facts if TIERS.get(f.get_id(), 2) <= maxtier]


def to_smt2(ob, watches=None, filtered=False, maxtier=None, intabs=False):
    s = z3.Solver()
    if maxtier is not None:
        facts = tier_facts(ob, maxtier)
    else:
        facts = select_facts(ob) if filtered else ob.facts
    if intabs:
        # integer-product abstraction (terms.abstract_int_products): only an `unsat` answer is used
        from .terms import abstract_int_products as ab1, abstract_real_products as ab2
        ab = lambda x: ab2(ab1(x))
        for f in facts:
            s.add(ab(f))
        for f in ob.pc:
            s.add(ab(f))
        g = ob.goal
        s.add(z3.BoolVal(False) if g is True else (z3.BoolVal(True) if g is False else z3.Not(ab(g))))
        # commutativity instances of the uninterpreted product (true of the real product)
        from .terms import _RMUL
        seen, st, inst = set(), list(s.assertions()), []
        while st:
            x = st.pop()
            if x.get_id() in seen:
                continue
            seen.add(x.get_id())
            if z3.is_app(x):
                if x.decl().eq(_RMUL):
                    u, v = x.arg(0), x.arg(1)
                    inst.append(x == _RMUL(v, u))
                    # oddness in each argument (reflections negate one factor)
                    inst.append(_RMUL(u, -v) == -x)
                    inst.append(_RMUL(-u, v) == -x)
                st.extend(x.children())
        for f in inst:
            s.add(f)
        return s.to_smt2(), []
    for f in facts:
        s.add(f)
    for f in ob.pc:
        s.add(f)
    g = ob.goal
    if g is True:
        s.add(z3.BoolVal(False))
    elif g is False:
        s.add(z3.BoolVal(True))
    else:
        s.add(z3.Not(g))
    names = []
    for k, (label, term) in enumerate(watches or []):
        if isinstance(term, z3.ExprRef):
            if z3.is_bool(term):
                w = z3.Bool("w!%d" % k)
            elif term.is_int():
                w = z3.Int("w!%d" % k)
            else:
                w = z3.Real("w!%d" % k)
            s.add(w == term)
            names.append((label, "w!%d" % k))
        else:
            names.append((label, None, str(term)))
    return s.to_smt2(), names


def _val_str(v):
    if z3.is_int_value(v):
        return str(v.as_long())
    if z3.is_rational_value(v):
        return "%d/%d" % (v.numerator_as_long(), v.denominator_as_long())
    if z3.is_algebraic_value(v):
        return v.as_decimal(17).rstrip("?")
    if z3.is_true(v):
        return "true"
    if z3.is_false(v):
        return "false"
    return str(v)


def _collect_ite_conds(exprs, limit=200000):
    """conditions of if-then-else terms, most frequent first"""
    seen = set()
    count = {}
    order = {}
    stack = list(exprs)
    n = 0
    while stack:
        e = stack.pop()
        i = e.get_id()
        if i in seen:
            continue
        seen.add(i)
        n += 1
        if n > limit:
            break
        if z3.is_app(e):
            if e.decl().kind() == z3.Z3_OP_ITE and not z3.is_bool(e):
                c = e.arg(0)
                count[c.get_id()] = count.get(c.get_id(), 0) + 1
                order[c.get_id()] = c
            stack.extend(e.children())
    ids = sorted(count, key=lambda k: -count[k])
    return [order[k] for k in ids]


def _solve_z3(text, timeout_ms, tactic=None):
    ctx = z3.Context()
    s = z3.Solver(ctx=ctx) if tactic is None else z3.Then(*tactic, ctx=ctx).solver()
    s.set("timeout", int(timeout_ms))
    s.from_string(text)
    r = s.check()
    if r == z3.unsat:
        return "proved", None
    if r == z3.sat:
        m = s.model()
        vals = {}
        for d in m.decls():
            if d.arity() == 0:
                vals[d.name()] = _val_str(m[d])
        return "refuted", vals
    return "unknown", s.reason_unknown()


def _solve_split(text, timeout_ms, max_conds=8):
    """case split on the conditions of term-level ite's (np.where/minimum/maximum/abs)"""
    ctx = z3.Context()
    asserts = z3.parse_smt2_string(text, ctx=ctx)
    # canonical atoms (x <= 0 and 0 >= x become the same term) so that one split decides both
    asserts = [z3.simplify(f, arith_lhs=True) for f in asserts]
    conds = _collect_ite_conds(list(asserts))
    # only split on atoms that are not themselves containing ite's (leaf conditions first)
    leaf = [c for c in conds if not _collect_ite_conds([c])]
    conds = (leaf or conds)[:max_conds]
    if not conds:
        return "unknown", "no ite to split"
    t_end = time.time() + timeout_ms / 1000.0
    ncase = 0
    T_, F_ = z3.BoolVal(True, ctx), z3.BoolVal(False, ctx)

    def rec(k, forms, lits):
        nonlocal ncase
        if time.time() > t_end:
            return "unknown", "split timeout"
        s = z3.Solver(ctx=ctx)
        s.set("timeout", 300 if k < len(conds) else max(1000, int((t_end - time.time()) * 1000 / 4)))
        for f in forms:
            s.add(f)
        for l in lits:
            s.add(l)
        r = s.check()
        if r == z3.unsat:
            return "proved", None
        if k == len(conds):
            ncase += 1
            if r == z3.unknown:
                try:
                    s3 = z3.Then("simplify", "solve-eqs", "purify-arith", "elim-term-ite", "qfnra-nlsat", ctx=ctx).solver()
                    s3.set("timeout", max(1000, int((t_end - time.time()) * 1000 / 4)))
                    for f in forms:
                        s3.add(f)
                    for l in lits:
                        s3.add(l)
                    r3 = s3.check()
                    if r3 == z3.unsat:
                        return "proved", None
                except z3.Z3Exception:
                    pass
            if r == z3.sat:
                m = s.model()
                vals = {d.name(): _val_str(m[d]) for d in m.decls() if d.arity() == 0}
                return "refuted", vals
            return "unknown", s.reason_unknown()
        c = conds[k]
        for val, litv in ((T_, c), (F_, z3.Not(c))):
            nf = [z3.simplify(z3.substitute(f, (c, val)), arith_lhs=True) for f in forms]
            st, info = rec(k + 1, nf, lits + [litv])
            if st != "proved":
                return st, info
        return "proved", None

    return rec(0, list(asserts), [])


def _solve_cvc5(text, timeout_ms):
    if not os.path.exists(CVC5):
        return "unknown", "no cvc5"
    txt = text
    if "(set-logic" not in txt:
        txt = "(set-logic ALL)\n" + txt
    with tempfile.NamedTemporaryFile("w", suffix=".smt2", delete=False, dir="/var/tmp") as f:
        f.write(txt)
        path = f.name
    try:
        p = subprocess.run([CVC5, "--tlimit=%d" % int(timeout_ms), path],
                           capture_output=True, text=True, timeout=timeout_ms / 1000.0 + 5)
        out = p.stdout.strip().splitlines()
        if out and out[0] == "unsat":
            return "proved", None
        if out and out[0] == "sat":
            return "refuted-cvc5", None
        return "unknown", (p.stdout + p.stderr)[:200]
    except subprocess.TimeoutExpired:
        return "unknown", "cvc5 timeout"
    finally:
        os.unlink(path)


def _alarm(signum, frame):
    raise TimeoutError()


def solve_task(task):
    """worker entry: (name, smt2 text, timeout seconds, options) -> result dict"""
    name, text, timeout, opts = task
    full_text = opts.get("full_text")
    tier_texts = opts.get("tier_texts") or []
    t0 = time.time()
    ms = int(timeout * 1000)
    log = []
    status, info, backend = "unknown", None, "z3"
    try:
        signal.signal(signal.SIGALRM, _alarm)
        signal.alarm(int(timeout * 4) + 30)
        try:
            steps = opts.get("steps") or ["z3quick", "split", "nlsat", "z3", "cvc5"]
            # cheap attempts with few hypotheses first (sound: fewer facts can only lose proofs)
            for tk, ttext in enumerate(tier_texts):
                ts = time.time()
                st, inf = _solve_z3(ttext, max(8000, ms // 2) if tk == opts.get("abs_tier") else max(1000, ms // 10))
                if st == "unknown" and tk != opts.get("abs_tier"):
                    st, inf = _solve_split(ttext, max(2000, ms // 5))
                log.append(("z3-tier%d" % tk, st, round(time.time() - ts, 3)))
                if st == "proved":
                    status, info, backend = st, inf, ("z3-abstraction" if tk == opts.get("abs_tier") else "z3")
                    break
            for step in (steps if status != "proved" else []):
                ts = time.time()
                if step == "z3":
                    st, inf = _solve_z3(text, ms)
                    bk = "z3"
                elif step == "z3quick":
                    st, inf = _solve_z3(text, max(1500, ms // 8))
                    bk = "z3"
                elif step == "nlsat":
                    try:
                        st, inf = _solve_z3(text, ms, tactic=("simplify", "purify-arith", "elim-term-ite", "solve-eqs", "qfnra-nlsat"))
                    except z3.Z3Exception as e:
                        st, inf = "unknown", "nlsat tactic: %s" % e
                    bk = "z3-nlsat"
                elif step == "split":
                    st, inf = _solve_split(text, ms * 2)
                    bk = "z3-split"
                elif step == "cvc5":
                    st, inf = _solve_cvc5(text, ms)
                    bk = "cvc5"
                else:
                    continue
                log.append((bk, st, round(time.time() - ts, 3)))
                if st in ("refuted", "refuted-cvc5") and full_text is not None:
                    # the query was filtered by cone of influence: confirm on the full one
                    st2, inf2 = _solve_z3(full_text, ms)
                    log.append(("z3-full", st2, round(time.time() - ts, 3)))
                    if st2 == "unknown":
                        st2s, inf2s = _solve_split(full_text, ms * 2)
                        log.append(("z3-full-split", st2s, round(time.time() - ts, 3)))
                        if st2s != "unknown":
                            st2, inf2 = st2s, inf2s
                    st, inf = st2, inf2
                    if st == "unknown":
                        status, info = "unknown", "filtered query sat, full query unknown"
                        break
                if st in ("proved", "refuted"):
                    status, info, backend = st, inf, bk
                    break
                if st == "refuted-cvc5":
                    # cvc5 says sat but we want z3 model values: report as refuted w/o model
                    status, info, backend = "refuted", {}, bk
                    break
                info = inf
        finally:
            signal.alarm(0)
    except TimeoutError:
        status, info = "unknown", "hard timeout"
    except Exception as e:      # solver crash: undecided, never a verdict
        status, info = "unknown", "solver error: %r" % (e,)
    return {"name": name, "status": status, "info": info, "backend": backend,
            "time": round(time.time() - t0, 3), "log": log}


_OBS = []          # obligations visible to forked workers (set by run_obligations before the pool starts)


def _ob_task(args):
    """worker: export (in the child: z3 terms are inherited through fork) and solve"""
    k, timeout, steps, tiers, dump = args
    ob = _OBS[k]
    try:
        watches = (ob.meta or {}).get("watches")
        full, names = to_smt2(ob, watches)
        text, _ = to_smt2(ob, watches, filtered=True)
        opts = {"steps": steps, "full_text": full if full != text else None}
        if tiers:
            tt = []
            for mt in (0, 1):
                t_, _ = to_smt2(ob, None, maxtier=mt)
                if t_ != text and (not tt or tt[-1] != t_):
                    tt.append(t_)
            try:
                # products abstracted (integer monomials -> opaque integers, real products -> uninterpreted function):
                # decides index case analyses and goals that hold by congruence; only `unsat` is used
                ta, _ = to_smt2(ob, None, filtered=True, intabs=True)
                if ta != text:
                    opts["abs_tier"] = 0          # first: it answers in a fraction of a second when it answers at all
                    tt.insert(0, ta)
            except Exception as e:
                opts["abs_error"] = repr(e)[:200]
            opts["tier_texts"] = tt
        if dump:
            os.makedirs("/var/tmp/pyvc_dump", exist_ok=True)
            open("/var/tmp/pyvc_dump/" + re.sub(r"[^A-Za-z0-9_.=,+-]+", "_", ob.name)[:150] + ".smt2", "w").write(text)
            if opts.get("abs_tier") is not None:
                open("/var/tmp/pyvc_dump/" + re.sub(r"[^A-Za-z0-9_.=,+-]+", "_", ob.name)[:150] + ".abs.smt2", "w").write(
                    opts["tier_texts"][opts["abs_tier"]])
    except Exception as e:
        return {"name": ob.name, "status": "unknown", "info": "export error: %r" % (e,), "backend": "-", "time": 0.0,
                "log": [], "names": [], "head": ""}
    r = solve_task((ob.name, text, timeout, opts))
    if opts.get("abs_error"):
        r["log"].append(("abstraction-export", opts["abs_error"], 0))
    r["names"] = names
    r["head"] = text[:600]
    return r


def _worker_loop(wid, tq, rq):
    signal.signal(signal.SIGINT, signal.SIG_IGN)
    while True:
        a = tq.get()
        if a is None:
            return
        rq.put(("start", wid, a[0], time.time()))
        try:
            r = _ob_task(a)
        except BaseException as e:
            r = {"name": _OBS[a[0]].name, "status": "unknown", "info": "worker error: %r" % (e,), "backend": "-",
                 "time": 0.0, "log": [], "names": [], "head": ""}
        rq.put(("done", wid, a[0], r))


def run_obligations(obs, specs, procs=None):
    """obs: Obligation list; specs: list of (timeout, steps, tiers, dump) per obligation.
    Own process pool (fork: the workers inherit the z3 terms) with a hard wall-clock limit per
    obligation: z3's soft timeout is not always honoured, an overdue worker is killed and the
    obligation reported 'unknown' (never a verdict)."""
    global _OBS
    _OBS = list(obs)
    procs = procs or min(16, os.cpu_count() or 4)
    results = {}
    if not obs:
        return results
    args = [(k,) + tuple(specs[k]) for k in range(len(obs))]
    if len(obs) == 1:
        r = _ob_task(args[0])
        results[r["name"]] = r
        return results
    ctx = mp.get_context("fork")
    tq, rq = ctx.Queue(), ctx.Queue()
    for a in args:
        tq.put(a)
    nproc = min(procs, len(args))
    workers = {}
    nextid = [0]

    def spawn():
        wid = nextid[0]
        nextid[0] += 1
        p = ctx.Process(target=_worker_loop, args=(wid, tq, rq), daemon=True)
        p.start()
        workers[wid] = p
        return wid
    for _ in range(nproc):
        spawn()
    running = {}
    done = 0
    finished = set()        # task indices reported (names may repeat: never count by name)
    import queue as _q
    while done < len(args):
        try:
            msg = rq.get(timeout=0.5)
        except _q.Empty:
            msg = None
        if msg is not None:
            kind, wid, k, payload = msg
            if kind == "start":
                running[wid] = (k, payload)
            else:
                running.pop(wid, None)
                if k not in finished:
                    finished.add(k)
                    results.setdefault(obs[k].name, payload)
                    done += 1
        now = time.time()
        for wid, (k, t0) in list(running.items()):
            hard = specs[k][0] * 6 + 20
            if now - t0 > hard:
                p = workers.pop(wid, None)
                if p is not None:
                    p.kill()
                    p.join(1)
                running.pop(wid, None)
                if k not in finished:
                    finished.add(k)
                    results.setdefault(obs[k].name, {"name": obs[k].name, "status": "unknown",
                                                     "info": "hard wall-clock limit (%ds): solver killed" % hard, "backend": "-",
                                                     "time": round(now - t0, 1), "log": [], "names": [], "head": ""})
                    done += 1
                spawn()
        # a worker that died without reporting: respawn
        for wid, p in list(workers.items()):
            if not p.is_alive() and wid not in running:
                workers.pop(wid)
                if done < len(args):
                    spawn()
    for _ in workers:
        tq.put(None)
    for p in workers.values():
        p.join(0.2)
        if p.is_alive():
            p.kill()
    return results


def run_all(tasks, procs=None, progress=None):
    """tasks: list of (name, smt2, timeout, opts). Returns dict name -> result"""
    procs = procs or min(16, os.cpu_count() or 4)
    results = {}
    if not tasks:
        return results
    if procs == 1 or len(tasks) == 1:
        for t in tasks:
            results[t[0]] = solve_task(t)
        return results
    ctx = mp.get_context("fork")
    with ProcessPoolExecutor(max_workers=procs, mp_context=ctx) as ex:
        futs = {ex.submit(solve_task, t): t[0] for t in tasks}
        for f in as_completed(futs):
            nm = futs[f]
            try:
                results[nm] = f.result()
            except Exception as e:
                results[nm] = {"name": nm, "status": "unknown", "info": "worker died: %r" % (e,),
                               "backend": "-", "time": 0.0, "log": []}
            if progress:
                progress(results[nm])
    return results
