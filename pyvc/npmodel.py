"""Model of the numpy / math / builtin surface used by flowdyn (DESIGN §2.4).

Every function is axiomatised by its documented elementwise / shape semantics over
lambda arrays.  Reductions over a symbolic length (min, sum, average) are abstract
symbols whose defining facts are instantiated on demand.
"""
import ast
import z3
from fractions import Fraction
from . import terms as T
from .terms import EngineError, cur
from . import arrays as A
from .arrays import SymArray, Sym2D, IndexTable


def _I():
    from . import interp
    return interp


# --------------------------------------------------------------------------------------
# reductions

def array_min(arr, where="min"):
    if not isinstance(arr, SymArray):
        if isinstance(arr, (list, tuple)):
            r = arr[0]
            for x in arr[1:]:
                r = T.minv(r, x)
            return r
        return arr
    arr._check_base()
    n = arr.length
    if not T.is_sym(n):
        if n == 0:
            T.oblige_safety(where + ":min-of-empty", False)
        r = arr.at(0)
        for k in range(1, n):
            r = T.minv(r, arr.at(k))
        return r
    ses = cur()
    key = (id(arr), arr.version)
    memo = ses.ghost.setdefault("min_memo", {})
    if key in memo:
        return memo[key][0]
    T.oblige_safety(where + ":min-of-empty", T.ge(n, 1))
    m = ses.fresh("amin")
    i0 = ses.fresh("argmin", "Int")
    at = arr._snapshot_at()
    ses.add_fact(z3.And(i0 >= 0, i0 < T.tz(n)))
    ses.add_fact(m == T.treal(at(i0)))
    memo[key] = (m, arr)   # keep arr alive so that id() stays unique
    ses.ghost.setdefault("mins", []).append((at, n, m, i0))
    return m


def instantiate_mins(i):
    """lemma instance: every recorded minimum (maximum) is <= (>=) the element at index i"""
    ses = cur()
    for (at, n, m, i0) in ses.ghost.get("mins", []):
        ses.add_fact(z3.Implies(z3.And(T.tz(i) >= 0, T.tz(i) < T.tz(n)), m <= T.treal(at(i))))
    for (at, n, m, i0) in ses.ghost.get("maxs", []):
        ses.add_fact(z3.Implies(z3.And(T.tz(i) >= 0, T.tz(i) < T.tz(n)), m >= T.treal(at(i))))


def array_max(arr, where="max"):
    """np.max: attained at some index (argmax skolem); upper-bound instances through instantiate_mins"""
    if not isinstance(arr, SymArray):
        if isinstance(arr, (list, tuple)):
            r = arr[0]
            for x in arr[1:]:
                r = T.maxv(r, x)
            return r
        return arr
    arr._check_base()
    n = arr.length
    if not T.is_sym(n):
        if n == 0:
            T.oblige_safety(where + ":max-of-empty", False)
        r = arr.at(0)
        for k in range(1, n):
            r = T.maxv(r, arr.at(k))
        return r
    ses = cur()
    key = (id(arr), arr.version)
    memo = ses.ghost.setdefault("max_memo", {})
    if key in memo:
        return memo[key][0]
    T.oblige_safety(where + ":max-of-empty", T.ge(n, 1))
    m = ses.fresh("amax")
    i0 = ses.fresh("argmax", "Int")
    at = arr._snapshot_at()
    ses.add_fact(z3.And(i0 >= 0, i0 < T.tz(n)))
    ses.add_fact(m == T.treal(at(i0)))
    memo[key] = (m, arr)
    ses.ghost.setdefault("maxs", []).append((at, n, m, i0))
    return m


def array_sum(arr, where="sum"):
    if not isinstance(arr, SymArray):
        if isinstance(arr, Sym2D):
            raise EngineError("full sum of a 2-D array")
        if isinstance(arr, (list, tuple)):
            r = 0
            for x in arr:
                r = T.add(r, x)
            return r
        return arr
    arr._check_base()
    n = arr.length
    if not T.is_sym(n):
        r = 0
        for k in range(n):
            r = T.add(r, arr.at(k))
        return r
    ses = cur()
    key = (id(arr), arr.version)
    memo = ses.ghost.setdefault("sum_memo", {})
    if key in memo:
        return memo[key][0]
    S = ses.fresh("asum")
    at = arr._snapshot_at()
    memo[key] = (S, arr)
    ses.ghost.setdefault("sums", []).append((at, n, S))
    # sum rules (harness-provided closed-form candidates): lemma sum-induction, premises = hint obligations
    for rule in ses.ghost.get("sum_rules", []):
        done = False
        for label, closed in rule(at, n):
            k = ses.fresh("k", "Int")
            with T.no_safety():
                base = T.treal(closed(0)) == 0
                step = z3.Implies(z3.And(k >= 0, k < T.tz(n)),
                                  T.treal(closed(k + 1)) - T.treal(closed(k)) == T.treal(at(k)))
            if _quick_valid(ses, z3.And(base, step)):
                from .hints import _hint_obligation
                _hint_obligation("sum-induction/%s/base" % label, base)
                _hint_obligation("sum-induction/%s/step" % label, step)
                with T.no_safety():
                    ses.add_fact(S == T.treal(closed(T.tz(n))))
                ses.notes.append("lemma sum-induction used for " + label)
                done = True
                break
        if done:
            break
    return S


def _quick_valid(ses, f, ms=1500):
    sol = z3.Solver()
    sol.set("timeout", ms)
    for x in ses.facts:
        sol.add(x)
    for x in ses.pc:
        sol.add(x)
    sol.add(z3.Not(f))
    return sol.check() == z3.unsat


class SymMatrix:
    """(m, m) matrix as a function of (row, col); used for the implicit solver only"""
    ndim = 2

    def __init__(self, nr, nc, fn, name=None):
        self.nr, self.nc = nr, nc
        self._fn = fn
        self.name = name
        self.version = 0

    def at(self, r, c):
        return self._fn(r, c)

    def getitem(self, idx):
        raise EngineError("matrix read by subscript is not modelled")

    def setitem(self, idx, v):
        # only  M[q::s, col] = vec
        if not (isinstance(idx, tuple) and len(idx) == 2 and isinstance(idx[0], slice)):
            raise EngineError("unsupported matrix store")
        sl, col = idx
        lo = 0 if sl.start is None else sl.start
        hi = self.nr if sl.stop is None else sl.stop
        st = 1 if sl.step is None else sl.step
        if isinstance(st, Fraction):
            st = int(st)
        old = self._fn
        n = A.slice_len(lo, hi, st)
        if isinstance(v, SymArray):
            v._check_base()
            T.oblige_safety("matrix-store:shape-match", T.eq(v.length, n))
            vat = v._snapshot_at()
        else:
            vat = None
        T.oblige_safety("matrix-store:column-in-bounds", T.band(T.le(0, col), T.lt(col, self.nc)))

        def fn(r, c, old=old):
            d = T.sub(r, lo)
            cond = T.band(T.eq(c, col), T.le(lo, r), T.lt(r, hi), T.eq(T.mod(d, st), 0) if st != 1 else True)
            if cond is False:
                return old(r, c)
            val = vat(T.floordiv(d, st) if st != 1 else d) if vat else v
            return T.ite(cond, val, old(r, c))
        self._fn = fn
        self.version += 1

    def copy(self):
        return SymMatrix(self.nr, self.nc, self._fn, self.name)


def matrix_binop(interp, op, a, b):
    f, _ = interp.scalar_op(op)
    if isinstance(a, SymMatrix) and isinstance(b, SymMatrix):
        fa, fb = a._fn, b._fn
        return SymMatrix(a.nr, a.nc, lambda r, c: f(fa(r, c), fb(r, c)))
    if isinstance(a, SymMatrix) and T.is_scalar(b):
        fa = a._fn
        return SymMatrix(a.nr, a.nc, lambda r, c: f(fa(r, c), b))
    if isinstance(b, SymMatrix) and T.is_scalar(a):
        fb = b._fn
        return SymMatrix(b.nr, b.nc, lambda r, c: f(a, fb(r, c)))
    raise EngineError("unsupported matrix operation")


# --------------------------------------------------------------------------------------
# attributes of arrays and scalars

def array_attr(interp, obj, name):
    I = _I()
    if name == "ndim":
        return obj.ndim
    if name == "size":
        if isinstance(obj, Sym2D):
            return T.mul(obj.nrows, obj.length)
        return obj.length
    if name == "shape":
        if isinstance(obj, Sym2D):
            return (obj.nrows, obj.length)
        return (obj.length,)
    if name == "copy":
        return I.Builtin("copy", lambda: obj.copy())
    if name == "min":
        return I.Builtin("min", lambda: array_min(obj))
    if name == "T":
        raise EngineError("transpose is not modelled")
    if name == "flatten":
        return I.Builtin("flatten", lambda: obj.copy())
    if name == "dtype":
        return obj.dtype
    if name == "sum":
        return I.Builtin("sum", lambda axis=None: np_sum(obj, axis))
    raise EngineError("array attribute %s is not modelled" % name)


def scalar_attr(interp, obj, name):
    I = _I()
    if name == "ndim":
        return 0
    if name == "copy":
        return I.Builtin("copy", lambda: obj)
    if name == "size":
        return 1
    if name == "shape":
        return ()
    raise EngineError("scalar attribute %s is not modelled" % name)


def np_sum(x, axis=None):
    if isinstance(x, Sym2D):
        if axis == 0:
            r = x.rows[0]
            for row in x.rows[1:]:
                r = A.elementwise(T.add, [r, row], name="sum0")
            return r
        raise EngineError("np.sum over a 2-D array needs axis=0")
    if axis not in (None, 0):
        raise EngineError("np.sum axis")
    return array_sum(x)


# --------------------------------------------------------------------------------------

def _ew(f, partial=False, name=None):
    def g(*args):
        args = [T.lit(a) for a in args]
        return A.elementwise(f, args, name=name, partial=partial)
    return g


def _as_list(x):
    if isinstance(x, SymArray):
        if T.is_sym(x.length):
            raise EngineError("array of symbolic length used as a shape/list")
        return [x.at(k) for k in range(x.length)]
    if isinstance(x, (list, tuple)):
        return list(x)
    return [x]


def make_numpy(interp):
    I = _I()

    def zeros(shape, dtype=None):
        # the proofs read float arrays as reals, which is the stated idealisation of IEEE double precision: a buffer of lower
        # precision (float32 / float16 / an integer type receiving quotients) silently rounds what is stored into it
        if dtype is not None and not (dtype is float or str(dtype) in ("float", "float64", "d", "f8", "<f8", "double", "<class 'float'>")
                                      or getattr(dtype, "name", None) in ("float", "float64")):
            if str(getattr(dtype, "name", dtype)) in ("int8", "int", "int64", "bool", "int32", "<class 'int'>", "i"):
                pass        # integer tables (normals, counters) are exact
            else:
                T.oblige_safety("numpy:double-precision-buffer(dtype=%s)" % (getattr(dtype, "name", dtype),), False)
        if isinstance(shape, (list, tuple, SymArray)):
            sh = _as_list(shape)
        else:
            sh = [shape]
        sh = [int(v) if isinstance(v, Fraction) and v.denominator == 1 else v for v in sh]
        if len(sh) == 0:
            return 0                # np.zeros(()): a 0-d array, modelled as the scalar 0.0
        if len(sh) == 1:
            return A.zeros(sh[0])
        if len(sh) == 2:
            square = T.same(sh[0], sh[1])
            if not square and not T.is_sym(sh[0]) and sh[0] <= 3:
                return Sym2D([A.zeros(sh[1]) for _ in range(sh[0])], name="zeros2d")
            return SymMatrix(sh[0], sh[1], lambda r, c: 0, name="zerosM")
        raise EngineError("np.zeros with %d dims" % len(sh))

    def np_concatenate(arrs, axis=0):
        """np.concatenate of 1-D arrays: element i comes from the k-th array with offset i - (L_0 + ... + L_{k-1})"""
        arrs = list(arrs) if isinstance(arrs, (list, tuple)) else _as_list(arrs)
        if not arrs or not all(isinstance(a_, SymArray) and not isinstance(a_, Sym2D) for a_ in arrs):
            raise EngineError("np.concatenate of something else than 1-D arrays")
        ats = [a_._snapshot_at() for a_ in arrs]
        lens = [a_.length for a_ in arrs]
        total = lens[0]
        for L in lens[1:]:
            total = T.add(total, L)

        def at(i, k=0, off=0):
            if k == len(arrs) - 1:
                return ats[k](T.sub(i, off))
            end = T.add(off, lens[k])
            return A.guarded(T.lt(i, end), lambda: ats[k](T.sub(i, off)), lambda: at(i, k + 1, end))
        return SymArray(total, at, name="concatenate")

    def np_shape(a):
        if isinstance(a, Sym2D):
            return (len(a.rows), a.rows[0].length)
        if isinstance(a, SymArray):
            return (a.length,)
        if isinstance(a, (list, tuple)):
            return (len(a),)
        return ()

    def np_divide(x, y, out=None, where=None):
        """np.divide(x, y, out=..., where=...): elementwise x/y where the mask holds, the element of `out` elsewhere"""
        if where is None:
            return A.elementwise(T.div, [T.lit(x), T.lit(y)], name="divide", partial=True)
        if out is None:
            raise EngineError("np.divide with where= but without out= leaves elements uninitialised")

        def f(a_, b_, w_, o_):
            return A.guarded(T.tz(w_) if T.is_sym(w_) else bool(w_), lambda: T.div(a_, b_), lambda: o_)
        return A.elementwise(f, [T.lit(x), T.lit(y), T.lit(where), T.lit(out)], name="divide", partial=True)

    def zeros_like(a):
        if isinstance(a, Sym2D):
            return Sym2D([A.zeros(r.length) for r in a.rows])
        if isinstance(a, SymArray):
            return A.zeros(a.length)
        return 0

    def ones(n):
        return A.full(n, 1, "ones")

    def full_like(a, v):
        if isinstance(a, Sym2D):
            vals = v
            rows = []
            for k, r in enumerate(a.rows):
                vk = vals[k]
                if isinstance(vk, (list, tuple)):
                    vk = vk[0]
                rows.append(A.full(r.length, T.lit(vk)))
            return Sym2D(rows)
        return A.full(a.length, T.lit(v))

    def array(x, dtype=None):
        if isinstance(x, (SymArray, Sym2D)):
            return x.copy()
        lst = [T.lit(v) for v in x]
        if lst and isinstance(lst[0], (list, tuple)):
            raise EngineError("np.array of nested lists")
        return SymArray(len(lst), lambda i, lst=lst: lst[interp.conc_index(i)] if not T.is_sym(i) or T.conc_value(i) is not None else _sel(lst, i), name="array")

    def _sel(lst, i):
        r = lst[-1]
        for k in range(len(lst) - 2, -1, -1):
            r = T.ite(T.eq(i, k), lst[k], r)
        return r

    def where(c, a, b):
        return A.elementwise(lambda cc, x, y: T.ite(cc, x, y), [c, T.lit(a), T.lit(b)], name="where")

    def arange(n):
        return IndexTable(n, 0, 1, name="arange")

    def linspace(a, b, m, endpoint=True):
        a, b = T.lit(a), T.lit(b)
        if isinstance(m, Fraction):
            m = int(m)
        T.oblige_safety("linspace:nonnegative-count", T.ge(m, 0))
        den = T.sub(m, 1) if endpoint else m
        # numpy: step = (b-a)/div when div > 0 (a single point or an empty array needs no step)
        with T.no_safety():
            step = T.ite(T.gt(den, 0), T.div(T.sub(b, a), T.ite(T.gt(den, 0), den, 1)), 0)
        return SymArray(m, lambda i: T.add(a, T.mul(i, step)), name="linspace")

    def append(x, y):
        if not isinstance(x, SymArray) or not isinstance(y, SymArray):
            raise EngineError("np.append of non-arrays")
        ax, ay = x._snapshot_at(), y._snapshot_at()
        nx = x.length
        return SymArray(T.add(nx, y.length), lambda i: T.ite(T.lt(i, nx), ax(i), ay(T.sub(i, nx))), name="append")

    def repeat(x, k, axis=None):
        if isinstance(k, Fraction):
            k = int(k)
        if isinstance(x, SymArray):
            at = x._snapshot_at()
            with T.no_safety():
                return SymArray(T.mul(x.length, k), lambda i: at(T.floordiv(i, k) if k != 1 else i), name="repeat")
        if T.is_scalar(x):
            return A.full(k, x, "repeat")
        raise EngineError("np.repeat")

    def tile(x, k):
        if isinstance(k, Fraction):
            k = int(k)
        if isinstance(x, SymArray) and isinstance(k, int) and k >= 1:
            at = x._snapshot_at()
            n = x.length
            with T.no_safety():
                return SymArray(T.mul(n, k), lambda i: at(T.mod(i, n) if k != 1 else i), name="tile")
        raise EngineError("np.tile")

    def diag(v):
        if not isinstance(v, SymArray):
            raise EngineError("np.diag")
        at = v._snapshot_at()
        return SymMatrix(v.length, v.length, lambda r, c: T.ite(T.eq(r, c), at(r), 0), name="diag")

    def einsum(spec, a, b):
        if spec != "ij,ij->j":
            raise EngineError("einsum " + spec)
        prod = A.elementwise(T.mul, [a, b])
        return np_sum(prod, axis=0)

    def np_min(x):
        return array_min(x)

    def np_max(x):
        return array_max(x)

    def average(d, weights=None):
        if weights is None:
            return T.div(array_sum(d), d.length)
        wd = A.elementwise(T.mul, [weights, d], name="w*d")
        num = array_sum(wd)
        den = array_sum(weights)
        cur().ghost.setdefault("averages", []).append((d, weights, wd, num, den))
        return T.div(num, den, "average")

    def spacing(x):
        x = T.lit(x)
        if x == 1:
            return Fraction(1, 2 ** 52)
        raise EngineError("np.spacing of a non-unit argument")

    def ndim(x):
        if isinstance(x, (SymArray, Sym2D, SymMatrix)):
            return x.ndim
        if isinstance(x, (list, tuple)):
            return 1 + (ndim(x[0]) if x else 0)
        return 0

    def deg2rad(x):
        return T.div(T.mul(T.lit(x), T.pi()), 180)

    def square(x):
        return A.elementwise(lambda v: T.mul(v, v), [x])

    def vstack(xs):
        rows = []
        for x in xs:
            if isinstance(x, Sym2D):
                rows.extend(x.rows)
            else:
                rows.append(x)
        return Sym2D(rows)

    def isnan(x):
        return A.elementwise(lambda v: False, [x])

    def np_any(x):
        if isinstance(x, bool):
            return x
        raise EngineError("np.any on a symbolic array")

    linalg = I.NativeNS("numpy.linalg", {"solve": I.Builtin("linalg.solve", lambda M, b: linalg_solve(M, b))})

    table = {
        "zeros": zeros, "concatenate": np_concatenate, "shape": np_shape, "divide": np_divide, "zeros_like": zeros_like, "ones": ones, "full_like": full_like, "array": array,
        "where": where, "arange": arange, "linspace": linspace, "append": append, "repeat": repeat, "tile": tile,
        "diag": diag, "einsum": einsum, "min": np_min, "max": np_max, "amax": np_max, "amin": np_min, "average": average, "spacing": spacing,
        "ndim": ndim, "deg2rad": deg2rad, "square": square, "vstack": vstack, "isnan": isnan, "any": np_any,
        "sqrt": _ew(lambda x: T.sqrt(x, "sqrt"), True, "sqrt"),
        "abs": _ew(T.absv, False, "abs"),
        "sign": _ew(T.signv, False, "sign"),
        "log": _ew(lambda x: T.log(x, "log"), True, "log"),
        "cos": _ew(T.cos, False, "cos"),
        "sin": _ew(T.sin, False, "sin"),
        "maximum": _ew(T.maxv, False, "maximum"),
        "minimum": _ew(T.minv, False, "minimum"),
        "sum": lambda x, axis=None: np_sum(x, axis),
    }
    tbl = {k: (v if isinstance(v, I.Builtin) else I.Builtin("np." + k, v)) for k, v in table.items()}
    tbl["linalg"] = linalg
    tbl["int8"] = "int8"
    tbl["pi"] = None
    ns = I.NativeNS("numpy", tbl)
    return ns


def linalg_solve(M, b):
    """assumed contract of numpy.linalg.solve: returns x with M x = b (M nonsingular).
    The result is a fresh array; the defining equation is recorded for lemma use."""
    ses = cur()
    x = A.input_array("linsolve_x", b.length)
    ses.ghost.setdefault("linsolves", []).append((M, b, x))
    ses.notes.append("assumed contract: numpy.linalg.solve returns x with M x = b")
    return x


def make_math(interp):
    I = _I()
    return I.NativeNS("math", {
        "sqrt": I.Builtin("math.sqrt", lambda x: T.sqrt(T.lit(x), "sqrt")),
        "pi": None,
    })


def make_builtins(interp):
    I = _I()

    def b_range(*a):
        a = [int(x) if isinstance(x, Fraction) and x.denominator == 1 else x for x in a]
        if len(a) == 1:
            return I.SymRange(0, a[0])
        if len(a) == 2:
            return I.SymRange(a[0], a[1])
        return I.SymRange(a[0], a[1], a[2])

    def b_len(x):
        if isinstance(x, (SymArray,)):
            return x.length
        if isinstance(x, Sym2D):
            return x.nrows
        if isinstance(x, I.PyObj):
            return interp.call(I.BoundMethod(x.cls.lookup("__len__"), x), [], {})
        return len(x)

    def b_enumerate(x, start=0):
        return list(enumerate(interp.iterate(x), start))

    def b_zip(*xs):
        return list(zip(*[interp.iterate(x) for x in xs]))

    def b_list(x=()):
        return list(interp.iterate(x))

    def b_tuple(x=()):
        return tuple(interp.iterate(x))

    def b_dict(*a, **k):
        if a and isinstance(a[0], dict):
            d = dict(a[0])
        elif a:
            d = dict(interp.iterate(a[0]))
        else:
            d = {}
        d.update(k)
        return d

    def b_any(x):
        acc = False
        for v in interp.iterate(x):
            acc = T.bor(acc, interp.truth(v))
        return acc

    def b_all(x):
        acc = True
        for v in interp.iterate(x):
            acc = T.band(acc, interp.truth(v))
        return acc

    def b_min(*a):
        if len(a) == 1:
            return array_min(a[0])
        r = a[0]
        for x in a[1:]:
            r = T.minv(r, x)
        return r

    def b_max(*a):
        if len(a) == 1:
            if isinstance(a[0], SymArray):
                raise EngineError("max of array")
            a = list(interp.iterate(a[0]))
        r = T.lit(a[0])
        for x in a[1:]:
            r = T.maxv(r, T.lit(x))
        return r

    def b_abs(x):
        return A.elementwise(T.absv, [T.lit(x)], name="abs")

    def b_hasattr(o, name):
        return interp.hasattr(o, name)

    def b_getattr(o, name, *d):
        try:
            return interp.getattr(o, name)
        except I.PyException:
            if d:
                return d[0]
            raise

    def b_type(x):
        if isinstance(x, I.PyObj):
            return x.cls
        return type(x)

    def b_int(x):
        x = T.lit(x)
        if isinstance(x, (int, Fraction)):
            return int(x)   # truncation
        if isinstance(x, z3.ArithRef):
            if x.is_int():
                return x
            # truncation toward zero; floor for x >= 0
            return z3.If(x >= 0, z3.ToInt(x), -z3.ToInt(-x))
        raise EngineError("int() of %r" % (x,))

    def b_float(x):
        x = T.lit(x)
        if isinstance(x, int):
            return Fraction(x)
        return x

    def b_isinstance(o, c):
        if isinstance(o, I.PyObj) and isinstance(c, I.PyClass):
            return o.cls.issubclass(c)
        raise EngineError("isinstance")

    def b_print(*a, **k):
        return None

    def b_repr(x):
        return repr(x)

    def b_str(x=""):
        return str(x)

    def b_sum(x, start=0):
        r = start
        for v in interp.iterate(x):
            r = interp.binop(ast.Add(), r, v)
        return r

    def b_bool(x):
        return interp.truth(x)

    def b_sorted(x):
        return sorted(interp.iterate(x))

    tbl = {"range": b_range, "len": b_len, "enumerate": b_enumerate, "zip": b_zip, "list": b_list,
           "tuple": b_tuple, "dict": b_dict, "any": b_any, "all": b_all, "min": b_min, "max": b_max,
           "abs": b_abs, "hasattr": b_hasattr, "getattr": b_getattr, "type": b_type, "int": b_int,
           "float": b_float, "isinstance": b_isinstance, "print": b_print, "repr": b_repr, "str": b_str,
           "sum": b_sum, "bool": b_bool, "sorted": b_sorted}
    out = {k: I.Builtin(k, v) for k, v in tbl.items()}
    out["True"] = True
    out["False"] = False
    out["None"] = None
    out["object"] = I.PyClass("object", [], {}, "builtins")
    return out
