"""Replay of solver counterexamples on the REAL flowdyn code (run with /venv/bin/python).

Every function returns True when the clause HOLDS on the real code for the given values
(counterexample not reproduced) and False when it FAILS (violation reproduced).
"""
import math
import sys
import warnings
from fractions import Fraction
import numpy as np

warnings.filterwarnings("ignore")
RTOL = 1e-9


def num(s, default=None):
    if s is None:
        return default
    if isinstance(s, (int, float)):
        return float(s)
    s = str(s)
    if s in ("true", "false"):
        return s == "true"
    try:
        if "/" in s:
            a, b = s.split("/")
            return float(Fraction(int(a), int(b)))
        return float(s.rstrip("?"))
    except Exception:
        return default


def close(x, y, scale=None, rtol=RTOL):
    x, y = np.asarray(x, dtype=float), np.asarray(y, dtype=float)
    if not (np.all(np.isfinite(x)) and np.all(np.isfinite(y))):
        return False
    sc = max(1.0, float(np.max(np.abs(x))), float(np.max(np.abs(y)))) if scale is None else scale
    return bool(np.all(np.abs(x - y) <= rtol * sc))


def show(**kw):
    print("  " + ", ".join("%s=%r" % (k, v) for k, v in kw.items()))


# --------------------------------------------------------------------------------------
# C12

def limiter_clause(vals, limiter, clause):
    import flowdyn.xnum as xnum
    f = getattr(xnum, limiter)
    a, b = num(vals.get("a"), 1.0), num(vals.get("b"), 1.0)
    lam = num(vals.get("lam"), 1.0)
    U = 2.0 ** -53
    r = float(f(a, b))
    show(limiter=limiter, clause=clause, a=a, b=b, lam=lam, result=r)
    p = a * b
    if clause == "float-accuracy":
        # the statement's clauses at double-precision accuracy over the stated range of magnitudes (a lower-precision buffer
        # rounds or overflows): bounds, a=b returns a, finiteness
        ok = True
        for mag in (1e-150, 1e-30, 1e-8, 0.1, 1.0, 3.7, 1e8, 1e100, 1e150):
            for ra_, rb_ in ((1.0, 1.0), (1.0, 0.3), (0.7, 1.9), (-1.0, -1.0), (-0.45, -1.0)):
                x, y = ra_ * mag, rb_ * mag
                v = float(f(x, y))
                lim = min(2 * min(abs(x), abs(y)), max(abs(x), abs(y))) * (1 + 8 * U)
                same = (x != y) or abs(v - x) <= abs(x) * 8 * U
                if not (math.isfinite(v) and abs(v) <= lim and same):
                    show(limiter=limiter, a=x, b=y, result=v, bound=lim)
                    ok = False
        return ok
    if clause == "finite":
        ok = math.isfinite(r) and abs(r) <= 2 * min(abs(a), abs(b)) * (1 + 4 * U) and abs(r) <= max(abs(a), abs(b)) * (1 + 4 * U)
        # arrays too
        ra = f(np.array([a, -a]), np.array([b, -b]))
        return ok and bool(np.all(np.isfinite(ra)))
    if clause == "opposite-or-zero":
        return not (p <= 0) or r == 0
    if clause == "sign":
        return not (p > 0) or r == 0 or (a > 0 and r > 0) or (a < 0 and r < 0)
    if clause == "bound-2min":
        return not (p > 0) or abs(r) <= 2 * min(abs(a), abs(b)) * (1 + 4 * U)
    if clause == "bound-max":
        return not (p > 0) or abs(r) <= max(abs(a), abs(b)) * (1 + 4 * U)
    if clause == "symmetric":
        return close(r, float(f(b, a)), rtol=1e-15)
    if clause == "odd":
        return close(float(f(-a, -b)), -r, rtol=1e-15)
    if clause == "homogeneous":
        rl = float(f(lam * a, lam * b))
        m = min(abs(a), abs(b), abs(lam * a), abs(lam * b))
        tol = lam * max(abs(a), abs(b)) * (1e-20 / m ** 2 + 8 * U)
        show(rl=rl, lam_r=lam * r, tol=tol)
        return abs(rl - lam * r) <= tol
    if clause == "identity":
        ra = float(f(a, a))
        return abs(ra - a) <= abs(a) * (1e-20 / a ** 2 + 8 * U)
    raise ValueError(clause)


# --------------------------------------------------------------------------------------
# models and physical fluxes in floats (independent of the flowdyn formulas)

def build_model(kind, vals, source=None, sectionlaw=None):
    if kind == "convection":
        import flowdyn.modelphy.convection as conv
        return conv.model(num(vals.get("a"), 1.5))
    if kind == "burgers":
        import flowdyn.modelphy.burgers as bu
        return bu.model()
    if kind == "shallowwater":
        import flowdyn.modelphy.shallowwater as sw
        return sw.shallowwater1d(g=num(vals.get("g"), 9.81), source=source)
    import flowdyn.modelphy.euler as eu
    g = num(vals.get("gamma"), 1.4)
    if kind == "euler1d":
        return eu.euler1d(gamma=g, source=source)
    if kind == "nozzle":
        return eu.nozzle(sectionlaw or (lambda x: 1 + 0 * x), gamma=g, source=source)
    if kind == "euler2d":
        return eu.euler2d(gamma=g, source=source)
    raise ValueError(kind)


NCOMP = {"convection": 1, "burgers": 1, "shallowwater": 2, "euler1d": 3, "nozzle": 3, "euler2d": 4}
DEFAULT_STATE = {"convection": [1.0], "burgers": [1.0], "shallowwater": [1.0, 0.5], "euler1d": [1.0, 0.5, 1.0],
                 "nozzle": [1.0, 0.5, 1.0], "euler2d": [1.0, 0.5, 0.25, 1.0]}


def state_from(vals, tag, kind):
    d = DEFAULT_STATE[kind]
    return [num(vals.get("%s%d" % (tag, k)), d[k]) for k in range(NCOMP[kind])]


def to_pdata(kind, W):
    """flat float state -> flowdyn primitive data list with arrays of length 1"""
    if kind == "euler2d":
        return [np.array([W[0]]), np.array([[W[1]], [W[2]]]), np.array([W[3]])]
    return [np.array([w]) for w in W]


def flat(F):
    out = []
    for f in F:
        f = np.asarray(f, dtype=float)
        if f.ndim == 2:
            out.extend([float(f[0, 0]), float(f[1, 0])])
        else:
            out.append(float(f.reshape(-1)[0]))
    return out


def phys_flux(kind, W, vals, normal=None):
    if kind == "convection":
        return [num(vals.get("a"), 1.5) * W[0]]
    if kind == "burgers":
        return [W[0] ** 2 / 2]
    if kind == "shallowwater":
        g = num(vals.get("g"), 9.81)
        h, u = W
        return [h * u, h * u * u + g * h * h / 2]
    g = num(vals.get("gamma"), 1.4)
    if kind in ("euler1d", "nozzle"):
        r, u, p = W
        H = g / (g - 1) * p / r + u * u / 2
        return [r * u, r * u * u + p, r * u * H]
    r, ux, uy, p = W
    nx, ny = normal
    un = ux * nx + uy * ny
    H = g / (g - 1) * p / r + (ux * ux + uy * uy) / 2
    return [r * un, r * un * ux + p * nx, r * un * uy + p * ny, r * un * H]


PARITY = {"convection": [-1], "burgers": [1], "shallowwater": [-1, 1], "euler1d": [-1, 1, -1],
          "nozzle": [-1, 1, -1], "euler2d": [-1, 1, 1, -1]}


def mirror_W(kind, W):
    if kind == "convection":
        return list(W)
    if kind == "burgers":
        return [-W[0]]
    if kind == "shallowwater":
        return [W[0], -W[1]]
    if kind == "euler2d":
        return [W[0], -W[1], -W[2], W[3]]
    return [W[0], -W[1], W[2]]


def numflux(model, kind, flux, WL, WR, normal):
    pL, pR = to_pdata(kind, WL), to_pdata(kind, WR)
    if kind == "euler2d":
        d = np.array([[normal[0]], [normal[1]]], dtype=np.int8)
        return flat(model.numflux(flux, pL, pR, d))
    return flat(model.numflux(flux, pL, pR))


def roe_speeds(kind, WL, WR, vals, normal):
    if kind == "shallowwater":
        g = num(vals.get("g"), 9.81)
        hL, uL = WL
        hR, uR = WR
        cL, cR = math.sqrt(g * hL), math.sqrt(g * hR)
        w = math.sqrt(hR / hL)
        ut = (uL + w * uR) / (1 + w)
        ct = math.sqrt(g * (hL + hR) / 2)
        return uL - cL, uL + cL, uR - cR, uR + cR, ut - ct, ut + ct
    g = num(vals.get("gamma"), 1.4)
    if kind == "euler2d":
        rL, uxL, uyL, pL = WL
        rR, uxR, uyR, pR = WR
        nx, ny = normal
        unL, unR = uxL * nx + uyL * ny, uxR * nx + uyR * ny
        qL2, qR2 = uxL ** 2 + uyL ** 2, uxR ** 2 + uyR ** 2
    else:
        rL, unL, pL = WL
        rR, unR, pR = WR
        qL2, qR2 = unL ** 2, unR ** 2
    cL, cR = math.sqrt(g * pL / rL), math.sqrt(g * pR / rR)
    HL, HR = g * pL / rL / (g - 1) + qL2 / 2, g * pR / rR / (g - 1) + qR2 / 2
    w = math.sqrt(rR / rL)
    un = (unL + w * unR) / (1 + w)
    Ht = (HL + w * HR) / (1 + w)
    if kind == "euler2d":
        q2 = ((uxL + w * uxR) / (1 + w)) ** 2 + ((uyL + w * uyR) / (1 + w)) ** 2
    else:
        q2 = un * un
    ct = math.sqrt((g - 1) * (Ht - q2 / 2))
    return unL - cL, unL + cL, unR - cR, unR + cR, un - ct, un + ct


def flux_clause(vals, kind, flux, clause, comp=None, normal=None):
    """C02 clauses evaluated on the real numflux"""
    model = build_model(kind, vals)
    normal = tuple(normal) if normal else None
    WL, WR = state_from(vals, "WL", kind), state_from(vals, "WR", kind)
    admissible = True
    if kind == "shallowwater":
        admissible = WL[0] > 0 and WR[0] > 0
    if kind in ("euler1d", "nozzle"):
        admissible = WL[0] > 0 and WR[0] > 0 and WL[2] > 0 and WR[2] > 0
    if kind == "euler2d":
        admissible = WL[0] > 0 and WR[0] > 0 and WL[3] > 0 and WR[3] > 0
    if not admissible:
        return True
    if clause == "consistency":
        F = numflux(model, kind, flux, WL, WL, normal)
        ref = phys_flux(kind, WL, vals, normal)
        show(kind=kind, flux=flux, clause=clause, W=WL, F=F, physical=ref)
        return close(F, ref)
    if clause == "mirror":
        F = numflux(model, kind, flux, WL, WR, normal)
        m2 = model
        if kind == "convection":
            m2 = build_model(kind, dict(vals, a=-num(vals.get("a"), 1.5)))
        Fm = numflux(m2, kind, flux, mirror_W(kind, WR), mirror_W(kind, WL), normal)
        ref = [s * f for s, f in zip(PARITY[kind], F)]
        show(kind=kind, flux=flux, clause=clause, WL=WL, WR=WR, F=F, F_mirrored=Fm, expected=ref)
        return close(Fm, ref)
    if clause in ("upwindL", "upwindR"):
        side = clause[-1]
        if kind == "convection":
            a = num(vals.get("a"), 1.5)
            hyp = a > 0 if side == "L" else a < 0
        elif kind == "burgers":
            hyp = (WL[0] > 0 and WR[0] > 0) if side == "L" else (WL[0] < 0 and WR[0] < 0)
        else:
            lm, lp, rm, rp, tm, tp = roe_speeds(kind, WL, WR, vals, normal)
            hyp = (lm > 0 and rm > 0 and tm > 0) if side == "L" else (lp < 0 and rp < 0 and tp < 0)
        if not hyp:
            return True
        F = numflux(model, kind, flux, WL, WR, normal)
        ref = phys_flux(kind, WL if side == "L" else WR, vals, normal)
        show(kind=kind, flux=flux, clause=clause, WL=WL, WR=WR, F=F, upwind_flux=ref)
        return close(F, ref)
    if clause == "hll-value":
        # the flux value against the HLL formula with the wave-speed estimates of the statement (C10): Rusanov
        # cmax = max(|uL|+cL, |uR|+cR); hll: sL = min(0, uL-cL, uR-cR), sR = max(0, uL+cL, uR+cR); hlle: Einfeldt (with Roe)
        F = numflux(model, kind, flux, WL, WR, normal)
        fL, fR = phys_flux(kind, WL, vals, normal), phys_flux(kind, WR, vals, normal)
        UL, UR = prim_to_cons(kind, WL, vals), prim_to_cons(kind, WR, vals)
        if kind == "shallowwater":
            g = num(vals.get("g"), 9.81)
            cL, cR = math.sqrt(g * WL[0]), math.sqrt(g * WR[0])
        else:
            g = num(vals.get("gamma"), 1.4)
            cL, cR = math.sqrt(g * WL[2] / WL[0]), math.sqrt(g * WR[2] / WR[0])
        uL, uR = WL[1], WR[1]
        if flux == "rusanov":
            sR = max(abs(uL) + cL, abs(uR) + cR)
            sL = -sR
        elif flux == "hll":
            sL, sR = min(0.0, uL - cL, uR - cR), max(0.0, uL + cL, uR + cR)
        else:
            lm, lp, rm, rp_, tm, tp = roe_speeds(kind, WL, WR, vals, normal)
            sL, sR = min(0.0, tm, lm), max(0.0, tp, rp_)
        ref = [(sR * a - sL * b + sL * sR * (ur - ul)) / (sR - sL) for a, b, ul, ur in zip(fL, fR, UL, UR)]
        show(kind=kind, flux=flux, clause=clause, WL=WL, WR=WR, F=F, hll_formula=ref, sL=sL, sR=sR)
        return close(F, ref)
    raise ValueError(clause)


def _hllc_speeds(model, WL, WR):
    g = model.gamma
    a = np.array
    rhoL, unL, pl, rhoR, unR, pr = a([WL[0]]), a([WL[1]]), a([WL[2]]), a([WR[0]]), a([WR[1]]), a([WR[2]])
    cL2, cR2 = g * pl / rhoL, g * pr / rhoR
    HL, HR = cL2 / (g - 1) + 0.5 * unL ** 2, cR2 / (g - 1) + 0.5 * unR ** 2
    Rrho, uRoe, cRoe = model._Roe_average(rhoL, unL, HL, rhoR, unR, HR)
    sL = np.minimum(uRoe - cRoe, unL - np.sqrt(cL2))
    sR = np.maximum(uRoe + cRoe, unR + np.sqrt(cR2))
    sM = (pl - pr - rhoL * unL * (sL - unL) + rhoR * unR * (sR - unR)) / (rhoR * (sR - unR) - rhoL * (sL - unL))
    return float(sL[0]), float(sM[0]), float(sR[0])


_orig_flux_clause = flux_clause


def flux_clause(vals, kind, flux, clause, comp=None, normal=None):
    if clause != "mirror-at-contact-zero":
        return _orig_flux_clause(vals, kind, flux, clause, comp, normal)
    # The solver's model has an outer wave speed of one sign and the contact speed of the other.
    # Galilean shift (bisection + scan of neighbouring doubles) to a contact speed of exactly
    # zero, then evaluate the statement's mirror clause on the real flux.
    model = build_model(kind, vals)
    WL, WR = state_from(vals, "WL", kind), state_from(vals, "WR", kind)
    sL, sM, sR = _hllc_speeds(model, WL, WR)
    show(WL=WL, WR=WR, sL=sL, sM=sM, sR=sR)
    sh = lambda V: ([WL[0], WL[1] + V, WL[2]], [WR[0], WR[1] + V, WR[2]])
    lo, hi = -sM - 1e-3 * (abs(sM) + 1), -sM + 1e-3 * (abs(sM) + 1)
    if not (_hllc_speeds(model, *sh(lo))[1] < 0 <= _hllc_speeds(model, *sh(hi))[1]):
        return _orig_flux_clause(vals, kind, flux, "mirror", comp, normal)
    for _ in range(200):
        mid = (lo + hi) / 2
        if _hllc_speeds(model, *sh(mid))[1] < 0:
            lo = mid
        else:
            hi = mid
    v = lo
    for _ in range(64):
        v = np.nextafter(v, -np.inf)
    for _ in range(4000):
        a, b = sh(v)
        s = _hllc_speeds(model, a, b)
        if s[1] == 0.0 and (s[0] >= 0 or s[2] <= 0):
            vv = dict(vals)
            for k in range(3):
                vv["WL%d" % k], vv["WR%d" % k] = repr(float(a[k])), repr(float(b[k]))
            print("  shifted to contact speed exactly 0: sL=%r sM=%r sR=%r" % s)
            return _orig_flux_clause(vv, kind, flux, "mirror", comp, normal)
        v = np.nextafter(v, np.inf)
    return _orig_flux_clause(vals, kind, flux, "mirror", comp, normal)


# --------------------------------------------------------------------------------------
# C17

def prim_to_cons(kind, W, vals):
    if kind in ("convection", "burgers"):
        return [W[0]]
    if kind == "shallowwater":
        return [W[0], W[0] * W[1]]
    g = num(vals.get("gamma"), 1.4)
    if kind == "euler2d":
        r, ux, uy, p = W
        return [r, (r * ux, r * uy), p / (g - 1) + 0.5 * r * (ux * ux + uy * uy)]
    r, u, p = W
    return [r, r * u, p / (g - 1) + 0.5 * r * u * u]


def cons_arrays(kind, Q, ncell=3):
    out = []
    for q in Q:
        if isinstance(q, tuple):
            out.append(np.array([[q[0]] * ncell, [q[1]] * ncell], dtype=float))
        else:
            out.append(np.array([q] * ncell, dtype=float))
    return out


def var_definitions(kind, W, vals, A=1.0):
    if kind == "convection":
        return {"q": W[0]}
    if kind == "shallowwater":
        return {"height": W[0], "massflow": W[0] * W[1], "velocity": W[1]}
    if kind == "burgers":
        return {}
    g = num(vals.get("gamma"), 1.4)
    d = {}
    if kind == "euler2d":
        r, ux, uy, p = W
        v2 = ux * ux + uy * uy
        d["velocity"] = (ux, uy)
        d["velocity_x"], d["velocity_y"] = ux, uy
    else:
        r, u, p = W
        v2 = u * u
        d["velocity"] = u
        d["massflow"] = r * u * A
    a = math.sqrt(g * p / r)
    d.update({"density": r, "pressure": p, "velocitymag": math.sqrt(v2), "kinetic_energy": r * v2 / 2,
              "kinetic-energy": r * v2 / 2, "asound": a, "mach": math.sqrt(v2) / a,
              "enthalpy": g / (g - 1) * p / r, "htot": g / (g - 1) * p / r + v2 / 2,
              "rttot": (g - 1) / g * (g / (g - 1) * p / r + v2 / 2),
              "ptot": p * (1 + (g - 1) / 2 * v2 / (a * a)) ** (g / (g - 1)),
              "entropy": math.log(p / r ** g) / (g - 1)})
    return d


def state_clause(vals, kind, clause, comp=None, name=None):
    W = [num(vals.get("W%d" % k), DEFAULT_STATE[kind][k]) for k in range(NCOMP[kind])]
    if kind == "shallowwater" and W[0] <= 0:
        return True
    if kind in ("euler1d", "nozzle") and (W[0] <= 0 or W[2] <= 0):
        return True
    if kind == "euler2d" and (W[0] <= 0 or W[3] <= 0):
        return True
    ncell = 3
    Aval = 1.7
    law = (lambda x: Aval + 0.6 * x) if (kind == "nozzle" and clause == "variable") else (lambda x: Aval + 0 * x)
    model = build_model(kind, vals, sectionlaw=law)
    xc = None
    if kind == "nozzle":
        import flowdyn.mesh as mesh
        msh = mesh.unimesh(ncell=ncell, length=1.0)
        model.initdisc(msh)
        xc = np.asarray(msh.centers(), dtype=float)
    Q = cons_arrays(kind, prim_to_cons(kind, W, vals), ncell)
    if clause == "variable":
        try:
            r = model.nameddata(name, Q)
        except Exception as e:
            print("  nameddata raised %r" % (e,))
            return False
        r = np.asarray(r, dtype=float)
        ref = var_definitions(kind, W, vals, A=Aval).get(name)
        if kind == "nozzle" and ref is not None and not isinstance(ref, tuple):
            # quantities proportional to the section are compared with the section at each cell centre (varying law)
            r1, r2 = var_definitions(kind, W, vals, A=1.0).get(name), var_definitions(kind, W, vals, A=2.0).get(name)
            if r1 is not None and abs(r2 - r1) > 1e-14 * max(1.0, abs(r1)):
                refc = [r1 * law(x) for x in xc]
                show(kind=kind, name=name, W=W, shape=r.shape, value=r.reshape(-1)[:4].tolist(), definition_per_cell=refc)
                return r.shape == (ncell,) and close(r, refc)
        show(kind=kind, name=name, W=W, shape=r.shape, value=r.reshape(-1)[:4].tolist(), definition=ref)
        if ref is None:
            return True
        if isinstance(ref, tuple):
            return r.shape == (len(ref), ncell) and all(close(r[k], [ref[k]] * ncell) for k in range(len(ref)))
        return r.shape == (ncell,) and close(r, [ref] * ncell)
    P = [np.array(q) for q in to_pdata_n(kind, W, ncell)]
    if clause in ("roundtrip-prim", "prim2cons"):
        Qr = model.prim2cons(P)
        if clause == "prim2cons":
            return all(close(a, b) for a, b in zip(Qr, Q))
        P2 = model.cons2prim(Qr)
        show(kind=kind, W=W, back=[np.asarray(p).reshape(-1)[:2].tolist() for p in P2])
        return all(close(a, b) for a, b in zip(P2, P))
    if clause == "roundtrip-cons":
        Q2 = model.prim2cons(model.cons2prim(Q))
        return all(close(a, b) for a, b in zip(Q2, Q))
    raise ValueError(clause)


def to_pdata_n(kind, W, n):
    if kind == "euler2d":
        return [np.array([W[0]] * n), np.array([[W[1]] * n, [W[2]] * n]), np.array([W[3]] * n)]
    return [np.array([w] * n, dtype=float) for w in W]


# --------------------------------------------------------------------------------------
# C18

def timestep_clause(vals, kind):
    W = [num(vals.get("W%d" % k), DEFAULT_STATE[kind][k]) for k in range(NCOMP[kind])]
    cfl, dx = num(vals.get("cfl"), 0.5), num(vals.get("dx"), 0.1)
    model = build_model(kind, vals)
    n = 3
    Q = cons_arrays(kind, prim_to_cons(kind, W, vals), n)
    size = dx if kind == "euler2d" else np.array([dx, 2 * dx, 0.5 * dx])
    dt = np.asarray(model.timestep(Q, size, cfl), dtype=float)
    if kind == "convection":
        rho = abs(num(vals.get("a"), 1.5))
    elif kind == "burgers":
        rho = abs(W[0])
    elif kind == "shallowwater":
        rho = abs(W[1]) + math.sqrt(num(vals.get("g"), 9.81) * W[0])
    elif kind == "euler2d":
        rho = math.hypot(W[1], W[2]) + math.sqrt(num(vals.get("gamma"), 1.4) * W[3] / W[0])
    else:
        rho = abs(W[1]) + math.sqrt(num(vals.get("gamma"), 1.4) * W[2] / W[0])
    ref = cfl * (np.array([dx] * n) if kind == "euler2d" else size) / rho
    show(kind=kind, W=W, cfl=cfl, dt=dt.tolist(), expected=ref.tolist())
    return dt.shape == (n,) and close(dt, ref) and bool(np.all(dt > 0))


# --------------------------------------------------------------------------------------
# C16

def _tot(g, W, v2=None):
    r, u, p = W
    v2 = u * u if v2 is None else v2
    X = 1 + (g - 1) / 2 * v2 / (g * p / r)
    return p * X ** (g / (g - 1)), p / r * X


def bc_clause(vals, kind, bc, dir, clause=None):
    model = build_model(kind, vals)
    prm = {k[4:]: num(v) for k, v in vals.items() if k.startswith("prm_") and v is not None}
    for k in ("ptot", "rttot", "p"):
        prm.setdefault(k, {"ptot": 1.4, "rttot": 1.1, "p": 1.0}[k])
    prm["type"] = bc
    g = num(vals.get("gamma"), 1.4)
    if kind == "euler2d":
        W = [num(vals.get("W%d" % k), DEFAULT_STATE[kind][k]) for k in range(4)]
        if W[0] <= 0 or W[3] <= 0:
            return True
        n = 2
        data = to_pdata_n(kind, W, n)
        d = np.array([[dir[0]] * n, [dir[1]] * n], dtype=float)
        out = model.namedBC(bc, d, data, prm)
        r1 = np.broadcast_to(np.asarray(out[0], float), (n,))
        p1 = np.broadcast_to(np.asarray(out[2], float), (n,))
        V1 = np.broadcast_to(np.asarray(out[1], float), (2, n))
        un0, un1 = W[1] * dir[0] + W[2] * dir[1], V1[0] * dir[0] + V1[1] * dir[1]
        ut0, ut1 = -W[1] * dir[1] + W[2] * dir[0], -V1[0] * dir[1] + V1[1] * dir[0]
        show(kind=kind, bc=bc, dir=dir, W=W, out=[r1[0], V1[0, 0], V1[1, 0], p1[0]], params=prm)
        if bc == "sym":
            return close(un1, -un0) and close(ut1, ut0) and close(r1, W[0]) and close(p1, W[3])
        if bc == "outsup":
            return close(r1, W[0]) and close(V1[0], W[1]) and close(V1[1], W[2]) and close(p1, W[3])
        if bc == "outsub":
            return close(p1, prm["p"]) and close(r1, W[0]) and close(V1[0], W[1]) and close(V1[1], W[2])
        if bc in ("insub", "insup"):
            pin = W[3] if bc == "insub" else prm["p"]
            ok = close(p1, pin) and bool(np.all(un1 <= 1e-12)) and close(ut1, 0 * ut1)
            if prm["ptot"] >= pin:
                pt, rt = _tot(g, [r1[0], 0.0, p1[0]], V1[0, 0] ** 2 + V1[1, 0] ** 2)
                ok = ok and close(pt, prm["ptot"]) and close(rt, prm["rttot"])
            return ok
        return True
    if bc == "dirichlet":
        return True
    if kind == "shallowwater":
        W = [num(vals.get("W0"), 1.0), num(vals.get("W1"), 0.5)]
        out = model.namedBC(bc, dir, [np.array([W[0]]), np.array([W[1]])], prm)
        show(kind=kind, bc=bc, W=W, out=[float(o[0]) for o in out])
        if bc == "sym":
            return close(out[0], W[0]) and close(out[1], -W[1])
        return close(out[0], W[0]) and close(out[1], W[1])
    W = [num(vals.get("W%d" % k), DEFAULT_STATE[kind][k]) for k in range(3)]
    if W[0] <= 0 or W[2] <= 0:
        return True
    out = model.namedBC(bc, dir, [np.float64(w) for w in W], prm)
    o = [float(x) for x in out]
    gmu = g - 1
    a0, a1 = math.sqrt(g * W[2] / W[0]), math.sqrt(abs(g * o[2] / o[0])) if o[0] != 0 else float("nan")
    pt0, rt0 = _tot(g, W)
    pt1, rt1 = _tot(g, o) if o[0] > 0 and o[2] > 0 else (float("nan"), float("nan"))
    show(kind=kind, bc=bc, dir=dir, W=W, out=o, params={k: v for k, v in prm.items() if k != "type"}, clause=clause)
    checks = {
        "admissible": o[0] > 0,
        "normal-velocity-reversed": close(o[1], -W[1]), "density-kept": close(o[0], W[0]), "pressure-kept": close(o[2], W[2]),
        "copies": close(o, W),
        "pressure-imposed": close(o[2], prm["p"]),
        "density-velocity-copied": close(o[:2], W[:2]),
        "pressure": close(o[2], W[2] if bc == "insub" else prm["p"]),
        "flows-inwards": -dir * o[1] >= -1e-12,
        "flows-outwards": dir * o[1] >= -1e-12,
        "total-temperature": (prm["ptot"] < (W[2] if bc == "insub" else prm["p"]) and bc != "insub_cbc") or close(rt1, prm["rttot"]),
        "total-pressure": (prm["ptot"] < (W[2] if bc == "insub" else prm["p"]) and bc != "insub_cbc") or close(pt1, prm["ptot"]),
        "at-rest-outside-regime": prm["ptot"] >= (W[2] if bc == "insub" else prm["p"]) or o[1] == 0,
        "total-temperature-kept": pt0 < prm["p"] or close(rt1, rt0),
        "total-pressure-kept": pt0 < prm["p"] or close(pt1, pt0),
        "outgoing-invariant": close(o[1] + dir * 2 * a1 / gmu, W[1] + dir * 2 * a0 / gmu),
        "entropy-kept": close(o[2] / o[0] ** g, W[2] / W[0] ** g) if o[0] > 0 else False,
    }
    if clause in ("rh-momentum", "rh-energy", "no-jump-copies"):
        if abs(o[0] - W[0]) < 1e-14:
            return close(o, W) if abs(prm["p"] - W[2]) < 1e-14 else True
        Ws = (o[0] * o[1] - W[0] * W[1]) / (o[0] - W[0])
        w0, w1 = W[1] - Ws, o[1] - Ws
        if clause == "rh-momentum":
            return close(o[0] * w1 * w1 + o[2], W[0] * w0 * w0 + W[2])
        if clause == "rh-energy":
            return close(g / gmu * o[2] / o[0] + w1 * w1 / 2, g / gmu * W[2] / W[0] + w0 * w0 / 2)
        return True
    if clause not in checks:
        return True
    return bool(checks[clause])


def wall_flux_clause(vals, kind, flux, normal, side):
    model = build_model(kind, vals)
    normal = tuple(normal) if normal else None
    W = state_from(vals, "WL", kind)
    if (kind == "shallowwater" and W[0] <= 0) or (kind in ("euler1d", "nozzle") and (W[0] <= 0 or W[2] <= 0)) \
            or (kind == "euler2d" and (W[0] <= 0 or W[3] <= 0)):
        return True
    if kind == "euler2d":
        un = W[1] * normal[0] + W[2] * normal[1]
        Wb = [W[0], W[1] - 2 * un * normal[0], W[2] - 2 * un * normal[1], W[3]]
    else:
        Wb = list(W)
        Wb[1] = -W[1]
    F = numflux(model, kind, flux, W, Wb, normal) if side == "right-wall" else numflux(model, kind, flux, Wb, W, normal)
    show(kind=kind, flux=flux, side=side, W=W, wall_image=Wb, F=F)
    sc = max(1.0, max(abs(f) for f in F))
    ok = abs(F[0]) <= 1e-9 * sc
    if kind != "shallowwater":
        ok = ok and abs(F[-1]) <= 1e-9 * sc
    return ok


# --------------------------------------------------------------------------------------
# C20

def mesh_clause(vals, cls):
    import flowdyn.mesh as mesh
    n = int(num(vals.get("n"), 7))
    L = num(vals.get("L"), 2.0)
    x0 = num(vals.get("x0"), 0.25)
    if cls == "refinedmesh":
        ratio, a, b = num(vals.get("ratio"), 2.0), num(vals.get("a"), 1.0), num(vals.get("b"), 1.0)
        m = mesh.refinedmesh(ncell=n, length=L, ratio=ratio, nratioa=a, nratiob=b)
        first, last = 0.0, L
    elif cls == "morphedmesh":
        f = lambda x: x + 0.1 * x ** 3
        m = mesh.morphedmesh(ncell=n, length=L, x0=x0, morph=f)
        first, last = f(x0), f(x0 + L)
    else:
        m = getattr(mesh, cls)(ncell=n, length=L, x0=x0)
        first, last = x0, x0 + L
    xf, xc = np.asarray(m.xf, float), np.asarray(m.xc, float)
    show(cls=cls, n=n, L=L, x0=x0, xf=xf.tolist()[:6])
    ok = len(xf) == n + 1 and len(xc) == n and bool(np.all(np.diff(xf) > 0)) and close(xf[0], first) and close(xf[-1], last)
    ok = ok and close(xc, (xf[:-1] + xf[1:]) / 2) and close(m.vol(), np.diff(xf)) and close(np.sum(m.vol()), xf[-1] - xf[0])
    ok = ok and close(m.average(np.full(n, 3.25)), 3.25)
    if hasattr(m, "dx") and not close(m.dx(), np.diff(xf)):
        show(cls=cls, dx=np.asarray(m.dx(), float).tolist()[:6], face_spacing=np.diff(xf).tolist()[:6])
        ok = False
    if cls == "refinedmesh":
        k = n * a / (a + b)
        if abs(k - round(k)) < 1e-12:
            k = int(round(k))
            d = np.diff(xf)
            dx1 = (a + b) * L / ((a + ratio * b) * n)
            ok = ok and close(d[:k], np.full(k, dx1)) and close(d[k:], np.full(n - k, ratio * dx1))
    return bool(ok)


def mesh2d_clause(vals):
    import flowdyn.mesh2d as mesh2d
    nx, ny = int(num(vals.get("nx"), 3)), int(num(vals.get("ny"), 2))
    m = mesh2d.mesh2d(nx, ny, 2.0, 3.0)
    nxf = ny * (nx + 1)
    want = {"left": [j * (nx + 1) for j in range(ny)], "right": [j * (nx + 1) + nx for j in range(ny)],
            "bottom": [nxf + c for c in range(nx)], "top": [nxf + ny * nx + c for c in range(nx)]}
    ok = m.ncell == nx * ny and m.nbfaces() == (nx + 1) * ny + nx * (ny + 1) and close(m.vol(), np.full(nx * ny, 2.0 / nx * 3.0 / ny))
    for tag, w in want.items():
        ok = ok and list(m.index_of_bc(tag)) == w
    nrm = {"left": (-1, 0), "right": (1, 0), "bottom": (0, -1), "top": (0, 1)}
    for tag, v in nrm.items():
        d = m.normal_of_bc(tag)
        ok = ok and d.shape == (2, len(want[tag])) and bool(np.all(d[0] == v[0])) and bool(np.all(d[1] == v[1]))
    show(nx=nx, ny=ny, ok=ok)
    return bool(ok)


# --------------------------------------------------------------------------------------
# C11

def _make_num(num, limiter=None, kappa=None):
    import flowdyn.xnum as xnum
    if num == "muscl":
        return xnum.muscl(limiter=getattr(xnum, limiter))
    if num == "extrapolk":
        return xnum.extrapolk(kappa if kappa is not None else 0.2)
    return getattr(xnum, num)()


def recon_clause(vals, num, limiter, bc, clause="linear"):
    import flowdyn.mesh as mesh, flowdyn.modeldisc as md, flowdyn.modelphy.convection as conv, flowdyn.field as field
    n = max(1, min(int(num_or(vals, "n", 8)), 40))
    msh = mesh.morphedmesh(ncell=n, length=1.0, morph=lambda x: x + 0.3 * x * x)
    model = conv.model(1.0)
    nm = _make_num(num, limiter, num_or(vals, "kappa", 0.2))
    bcd = {"type": bc, "prim": [0.7]}
    disc = md.fvm1d(model, msh, nm, bcL=bcd, bcR=bcd)
    al, be = num_or(vals, "alpha", 1.3), num_or(vals, "beta", -0.4)

    def faces(d):
        f = field.fdata(model, msh, [d])
        disc.field = f
        disc.qdata = [x.copy() for x in f.data]
        disc.cons2prim(); disc.calc_grad(); disc.calc_bc_grad(); disc.interp_face()
        return disc.pL[0], disc.pR[0]
    ok = True
    L, R = faces(np.full(n, 2.5))
    ok = ok and close(L[1:], np.full(n, 2.5)) and close(R[:-1], np.full(n, 2.5))
    if num == "extrapol1":
        d = np.sin(np.arange(n) * 1.7)
        L, R = faces(d)
        ok = ok and close(L[1:], d) and close(R[:-1], d)
    else:
        for al_ in (al, -al, 0.3 * al, -0.3 * al):        # increasing and decreasing profiles
            L, R = faces(al_ * msh.xc + be)
            ex = al_ * msh.xf + be
            if n >= 3 and not (close(L[2:n], ex[2:n]) and close(R[1:n - 1], ex[1:n - 1])):
                show(num=num, limiter=limiter, bc=bc, n=n, slope=al_, left_states=np.asarray(L[2:n]).tolist()[:4], exact=np.asarray(ex[2:n]).tolist()[:4])
                ok = False
    show(num=num, limiter=limiter, bc=bc, n=n, alpha=al, beta=be, ok=ok)
    return bool(ok)


def num_or(vals, k, d):
    v = num(vals.get(k))
    return d if v is None else v


def kappa_clause(vals, num, kappa):
    k = float(Fraction(kappa))
    return close(_make_num(num).kprec, k)


def stencil_clause(vals, num, sign):
    import flowdyn.mesh as mesh, flowdyn.modeldisc as md, flowdyn.modelphy.convection as conv, flowdyn.field as field
    a = abs(num_or(vals, "a", 1.5)) * (1 if sign == "a>0" else -1)
    kap = num_or(vals, "kappa", 0.2)
    nm = _make_num(num, None, kap)
    kap = {"extrapol1": None, "extrapol2": -1.0}.get(num, getattr(nm, "kprec", None))
    ok = True
    for n in sorted(set([1, 2, 3, 4, 5, 9, max(1, min(int(num_or(vals, "n", 7)), 60))])):
        msh = mesh.unimesh(ncell=n, length=2.0, x0=0.5)
        disc = md.fvm1d(conv.model(a), msh, nm)
        u = np.cos(1.3 * np.arange(n) ** 2 + 0.2)
        res = disc.rhs(field.fdata(disc.model, msh, [u]))[0]
        uu = lambda j: u[j % n]

        def ustar(j):
            c, up, dn = (j, j - 1, j + 1) if a > 0 else (j + 1, j + 2, j)
            if kap is None:
                return uu(c)
            return uu(c) + ((1 - kap) * (uu(c) - uu(up)) + (1 + kap) * (uu(dn) - uu(c))) / 4
        want = np.array([-(a / (2.0 / n)) * (ustar(i) - ustar(i - 1)) for i in range(n)])
        if not close(res, want):
            show(num=num, n=n, a=a, kappa=kap, res=res.tolist()[:5], want=want.tolist()[:5])
            ok = False
    return ok


# --------------------------------------------------------------------------------------
# C01 / C03 / C19 : real discretisations

def _bc(kind, name, W=None):
    d = {"type": name}
    if name == "dirichlet":
        d["prim"] = [np.float64(w) for w in (W or DEFAULT_STATE[kind])]
    d.update({"ptot": 1.6, "rttot": 1.15, "p": 0.9})
    return d


def _random_prim(kind, n, seed=0):
    rng = np.random.default_rng(seed)
    if kind in ("convection", "burgers"):
        return [rng.uniform(0.5, 2.0, n)]
    if kind == "shallowwater":
        return [rng.uniform(0.5, 2.0, n), rng.uniform(-1, 1, n)]
    return [rng.uniform(0.5, 2.0, n), rng.uniform(-0.8, 0.8, n), rng.uniform(0.5, 2.0, n)]


def make_disc(kind, num, limiter, bcL, bcR, n, vals, flux=None, source=None, sectionlaw=None, uniform=False):
    import flowdyn.mesh as mesh, flowdyn.modeldisc as md
    model = build_model(kind, vals, source=source, sectionlaw=sectionlaw)
    msh = mesh.unimesh(ncell=n, length=1.0) if uniform else mesh.morphedmesh(ncell=n, length=1.0, morph=lambda x: x + 0.4 * x * x)
    return md.fvm1d(model, msh, _make_num(num, limiter, 0.2), numflux=flux, bcL=_bc(kind, bcL), bcR=_bc(kind, bcR)), model, msh


def conservation_clause(vals, kind, num, limiter, bcL, bcR):
    import flowdyn.field as field
    ok = True
    for n in (1, 2, 3, 7, 20):
        for flux in ([None] if kind in ("convection", "burgers") else list(build_model(kind, vals)._numfluxdict.dict.keys())):
            disc, model, msh = make_disc(kind, num, limiter, bcL, bcR, n, vals, flux=flux)
            P = _random_prim(kind, n, seed=n)
            f = field.fdata(model, msh, model.prim2cons(P))
            res = disc.rhs(f)
            vol = msh.vol()
            for k in range(len(res)):
                I = float(np.sum(res[k] * vol))
                bnd = float(disc.flux[k][0] - disc.flux[k][-1])
                good = close(I, bnd, rtol=1e-9)
                last = len(res) - 1
                if bcL == "per":
                    good = good and abs(I) <= 1e-9 * max(1.0, np.max(np.abs(disc.flux[k])))
                if bcL == "sym" and bcR == "sym" and (k == 0 or (k == last and kind != "shallowwater")):
                    good = good and abs(I) <= 1e-9 * max(1.0, np.max(np.abs(disc.flux[k])))
                if not good:
                    show(kind=kind, num=num, limiter=limiter, flux=flux, bc=(bcL, bcR), n=n, comp=k, integral=I, boundary=bnd)
                    ok = False
    return ok


# --------------------------------------------------------------------------------------
# C03

def _matched(name, g, W):
    pt, rt = _tot(g, W)
    d = {"type": name}
    if name in ("insub", "insub_cbc", "insup"):
        d.update({"ptot": pt, "rttot": rt})
    if name in ("insup", "outsub", "outsub_prim", "outsub_qtot", "outsub_rh", "outsub_nrcbc"):
        d["p"] = W[2]
    return d


def bc_fixed_point(vals, bc, dir):
    import flowdyn.modelphy.euler as eu
    g = num_or(vals, "gamma", 1.4)
    W = [num_or(vals, "W0", 1.2), num_or(vals, "W1", -0.4 * dir if bc.startswith("in") else 0.4 * dir), num_or(vals, "W2", 0.9)]
    if W[0] <= 0 or W[2] <= 0:
        return True
    a = math.sqrt(g * W[2] / W[0])
    if bc in ("insub", "insup") and not (-dir * W[1] >= 0):
        return True
    if bc == "insub_cbc" and not (dir * W[1] <= a):
        return True
    if bc == "outsub_qtot" and not (dir * W[1] >= 0):
        return True
    m = eu.euler1d(gamma=g)
    out = [float(x) for x in m.namedBC(bc, dir, [np.float64(w) for w in W], _matched(bc, g, W))]
    show(bc=bc, dir=dir, W=W, out=out)
    return close(out, W)


def uniform_clause(vals, kind, num, limiter, bcL, bcR):
    import flowdyn.mesh as mesh, flowdyn.modeldisc as md, flowdyn.field as field
    g = num_or(vals, "gamma", 1.4)
    W = [num_or(vals, "W%d" % k, DEFAULT_STATE[kind][k]) for k in range(NCOMP[kind])]
    if kind == "nozzle":
        W[1] = 0.0
    if kind in ("euler1d", "nozzle"):
        if bcL in ("insub", "insup") and W[1] < 0:
            W[1] = -W[1]
        if bcR == "outsub_qtot" and W[1] < 0:
            W[1] = -W[1]
    ok = True
    for n in (1, 2, 3, 8):
        model = build_model(kind, vals, sectionlaw=lambda x: 1.0 + 0.3 * np.sin(3 * x))
        msh = mesh.morphedmesh(ncell=n, length=1.0, morph=lambda x: x + 0.4 * x * x)
        bl, br = {"type": bcL}, {"type": bcR}
        if bcL == "dirichlet":
            bl["prim"] = br["prim"] = [np.float64(w) for w in W]
        if kind in ("euler1d", "nozzle") and bcL not in ("per", "dirichlet"):
            bl, br = _matched(bcL, g, W), _matched(bcR, g, W)
        fluxes = [None] if kind in ("convection", "burgers") else list(model._numfluxdict.dict.keys())
        for flux in fluxes:
            disc = md.fvm1d(model, msh, _make_num(num, limiter, 0.2), numflux=flux, bcL=bl, bcR=br)
            Q = cons_arrays(kind, prim_to_cons(kind, W, vals), n)
            res = disc.rhs(field.fdata(model, msh, Q))
            sc = max(1.0, max(abs(w) for w in W)) ** 3 * 10
            for k, r in enumerate(res):
                if not (np.all(np.isfinite(r)) and np.max(np.abs(r)) <= 1e-9 * sc * n * n):
                    show(kind=kind, num=num, limiter=limiter, flux=flux, bc=(bcL, bcR), n=n, comp=k, residual=np.asarray(r).tolist()[:4])
                    ok = False
    return ok


# --------------------------------------------------------------------------------------
# C19

def source_clause(vals, kind, pattern):
    import flowdyn.mesh as mesh, flowdyn.modeldisc as md, flowdyn.field as field, flowdyn.xnum as xnum
    n = 6
    msh = mesh.morphedmesh(ncell=n, length=1.0, morph=lambda x: x + 0.4 * x * x)
    law = lambda x: 1.0 + 0.3 * np.sin(3 * x)
    calls = []

    def mk(k):
        def f(x, q):
            calls.append(k)
            return (k + 1.0) * np.cos(x) + 0.1 * q[0]
        return f
    src = None if pattern is None else [mk(k) if b else None for k, b in enumerate(pattern)]
    P = _random_prim(kind, n, seed=3)
    try:
        m0 = build_model(kind, vals, sectionlaw=law)
        m1 = build_model(kind, vals, source=src, sectionlaw=law)
        d0 = md.fvm1d(m0, msh, xnum.extrapol2())
        d1 = md.fvm1d(m1, msh, xnum.extrapol2())
        Q = m0.prim2cons(P)
        r0 = [x.copy() for x in d0.rhs(field.fdata(m0, msh, Q))]
        r1 = d1.rhs(field.fdata(m1, msh, Q))
    except BaseException as e:
        print("  raised %s: %s" % (type(e).__name__, str(e)[:100]))
        return False
    ok = True
    for k in range(len(r0)):
        want = r0[k] + (src[k](msh.centers(), Q) if src and src[k] else 0.0)
        if not close(r1[k], want):
            show(kind=kind, pattern=pattern, comp=k, got=np.asarray(r1[k]).tolist()[:3], want=np.asarray(want).tolist()[:3])
            ok = False
    return ok


def nozzle_geom_clause(vals):
    import flowdyn.mesh as mesh, flowdyn.modeldisc as md, flowdyn.field as field, flowdyn.xnum as xnum, flowdyn.modelphy.euler as eu
    n = 7
    msh = mesh.morphedmesh(ncell=n, length=1.0, morph=lambda x: x + 0.4 * x * x)
    law = lambda x: 1.0 + 0.3 * np.sin(3 * x)
    g = 1.4
    m = eu.nozzle(law, gamma=g)
    d = md.fvm1d(m, msh, xnum.extrapol2())
    P = _random_prim("nozzle", n, seed=5)
    Q = m.prim2cons(P)
    res = d.rhs(field.fdata(m, msh, Q))
    xf, xc = msh.xf, msh.xc
    gt = (law(xf[1:]) - law(xf[:-1])) / ((xf[1:] - xf[:-1]) * law(xc))
    r, u, p = P
    H = g / (g - 1) * p / r + u * u / 2
    fl = [r * u, r * u * u, r * u * H]
    ok = True
    for k in range(3):
        bal = -(d.flux[k][1:] - d.flux[k][:-1]) / (xf[1:] - xf[:-1])
        ok = ok and close(res[k], bal - gt * fl[k])
    return ok


# --------------------------------------------------------------------------------------
# C05 : record what the real integrator hands to the right-hand side

class _RecDisc:
    """discretisation stub: nonlinear, time dependent RHS; records the times it is called at"""

    def __init__(self, nelem):
        self.nelem = nelem
        self.times = []

    def rhs(self, f):
        self.times.append(f.time)
        return [np.cos(f.time) * d - 0.3 * d ** 2 for d in f.data]


class _M:
    neq = 1
    shape = [1]
    islinear = 0


class _Mesh:
    def __init__(self, n):
        self.ncell = n


def _exact_order(integ_cls, order):
    """observed order on dq/dt = cos(t) q - 0.3 q^2 against a fine reference"""
    import flowdyn.field as field
    def run(nstep, T=0.8):
        disc = _RecDisc(2)
        s = integ_cls(_Mesh(2), disc)
        f = field.fdata(_M(), _Mesh(2), [np.array([1.0, 0.5])])
        dt = T / nstep
        for _ in range(nstep):
            s.step(f, dt)
        return f.data[0].copy(), f.time
    ref, _ = run(4096)
    e1 = np.max(np.abs(run(16)[0] - ref))
    e2 = np.max(np.abs(run(32)[0] - ref))
    return math.log(e1 / e2) / math.log(2.0)


def rk_clause(vals, integrator, clause=None, stage=None, c=None, order=None):
    import flowdyn.integration as ti, flowdyn.field as field
    cls = getattr(ti, integrator)
    disc = _RecDisc(2)
    s = cls(_Mesh(2), disc)
    f = field.fdata(_M(), _Mesh(2), [np.array([1.0, 0.5])], t=0.25)
    dt = 0.5
    s.step(f, dt)
    show(integrator=integrator, clause=clause, stage_times=[(t - 0.25) / dt for t in disc.times], time_after=(f.time - 0.25) / dt)
    if clause == "stage-time":
        return close((disc.times[stage] - 0.25) / dt, float(Fraction(c)))
    if clause in ("time-advances-by-dt",) or (clause or "").startswith("time-advances"):
        return close(f.time, 0.25 + dt)
    if clause == "order":
        p = _exact_order(cls, order)
        show(observed_order=p)
        return p >= order - 0.3
    if clause == "stability":
        # propagator of y' = lambda y recovered from real steps (polynomial fit in z = lambda*dt) against the polynomial of the
        # statement: Taylor of degree 4 for lsrk4, the Bogey-Bailly coefficients for lsrk25bb / lsrk26bb
        want = {"lsrk4": [1.0, 0.5, 1 / 6., 1 / 24.],
                "lsrk25bb": [1.0, 0.5, 0.165250353664, 0.039372585984, 0.007149096448],
                "lsrk26bb": [1.0, 0.5, 0.165919771368, 0.040919732041, 0.007555704391, 0.000891421261]}.get(integrator)
        if want is None:
            return True

        class _Lin:
            def __init__(self, lam):
                self.lam = lam

            def rhs(self, fld):
                return [self.lam * fld.data[0]]
        zs = np.linspace(-1.2, 1.2, 2 * len(want) + 3)
        R = []
        for z in zs:
            s2 = cls(_Mesh(1), _Lin(z))
            f2 = field.fdata(_M(), _Mesh(1), [np.array([1.0])], t=0.0)
            s2.step(f2, 1.0)
            R.append(float(f2.data[0][0]))
        coef = np.polyfit(zs, np.array(R), len(want))[::-1]       # ascending powers
        got = [float(c_) for c_ in coef[1:]]
        show(integrator=integrator, propagator_coefficients=got, expected=want)
        return abs(coef[0] - 1) < 1e-8 and all(abs(g - w) <= 2e-9 + 1e-7 * 0 for g, w in zip(got, want))
    return True


# --------------------------------------------------------------------------------------
# C06

def _conv_setup(n=16, num="extrapol2"):
    import flowdyn.mesh as mesh, flowdyn.modeldisc as md, flowdyn.modelphy.convection as conv, flowdyn.field as field
    msh = mesh.unimesh(ncell=n, length=1.0)
    model = conv.model(1.0)
    disc = md.fvm1d(model, msh, _make_num(num))
    q = 1.0 + 0.5 * np.sin(2 * np.pi * msh.centers()) + 0.2 * np.cos(6 * np.pi * msh.centers())
    return msh, model, disc, field.fdata(model, msh, [q])


def _operator(disc, model, msh):
    import flowdyn.field as field
    n = msh.ncell
    Aop = np.zeros((n, n))
    for j in range(n):
        e = np.zeros(n)
        e[j] = 1.0
        Aop[:, j] = disc.rhs(field.fdata(model, msh, [e]))[0]
    return Aop


def implicit_clause(vals, integrator, n, neq, clause=None):
    import flowdyn.integration as ti
    if clause == "local-dt":
        return _implicit_system_clause(integrator, dtlocal=True)
    msh, model, disc, f = _conv_setup()
    Aop = _operator(disc, model, msh)
    s = getattr(ti, integrator)(msh, disc)
    q0 = f.data[0].copy()
    dt = 0.07
    t0 = f.time
    s.step(f, dt)
    I = np.eye(msh.ncell)
    if integrator in ("implicit", "backwardeuler"):
        ref = np.linalg.solve(I - dt * Aop, q0)
    else:
        ref = np.linalg.solve(I - dt / 2 * Aop, (I + dt / 2 * Aop) @ q0)
    err = float(np.max(np.abs(f.data[0] - ref)) / np.max(np.abs(ref)))
    show(integrator=integrator, relative_error_of_one_step=err, time_advance=(f.time - t0) / dt)
    if clause == "time":
        return close(f.time, t0 + dt)
    ok = err <= 1e-6 and close(f.time, t0 + dt)
    # the step of a linear model is the same function of (field, dt) whether the Jacobian was just computed or is cached:
    # repeat the step from the same state on the same solver object (history of gear removed) -- bit for bit
    fa = f.copy(); fa.data[0][:] = q0; fa.time = t0
    s.__dict__.pop("_lastresidual", None)
    s.step(fa, dt)
    if not np.array_equal(np.asarray(fa.data[0]), np.asarray(f.data[0])):
        show(integrator=integrator, first_step_vs_step_with_cached_jacobian=float(np.max(np.abs(fa.data[0] - f.data[0]))))
        ok = False
    if integrator == "gear":
        # further steps against the exact BDF2 recurrence (3I - 2dt A) Q_{n+1} = 4 Q_n - Q_{n-1}
        qm, qn = q0, ref.copy()
        for k in range(2, 6):
            s.step(f, dt)
            qp = np.linalg.solve(3 * I - 2 * dt * Aop, 4 * qn - qm)
            e = float(np.max(np.abs(f.data[0] - qp)) / np.max(np.abs(qp)))
            if e > 1e-6:
                show(integrator=integrator, step=k, relative_deviation_from_the_BDF2_recurrence=e)
                ok = False
                break
            qm, qn = qn, qp
    if neq > 1 and not _implicit_system_clause(integrator):
        ok = False
    return ok


def _implicit_system_clause(integrator, dtlocal=False):
    """systems (neq > 1): three steps of an implicit integrator on 1-D Euler (hlle, extrapol1, periodic, smooth subsonic state)
    against a dense solve of the linearised backward-Euler / Crank-Nicolson / BDF2 system with the replay's own central-difference
    Jacobian and its own unknown ordering; tolerance 1e-4 |dQ| (linearisation and finite-difference errors are ~1e-7)"""
    import flowdyn.mesh as mesh, flowdyn.modeldisc as md, flowdyn.modelphy.euler as eu, flowdyn.xnum as xnum
    import flowdyn.integration as ti, flowdyn.field as field
    n = 8
    msh = mesh.unimesh(ncell=n, length=1.0)
    model = eu.euler1d()
    disc = md.fvm1d(model, msh, xnum.extrapol1(), numflux="hlle")
    xc = msh.centers()
    P = [1 + 0.05 * np.sin(2 * np.pi * xc), 0.3 + 0.02 * np.cos(2 * np.pi * xc), 1 + 0.05 * np.sin(2 * np.pi * xc + 1)]
    f = field.fdata(model, msh, model.prim2cons(P))
    s = getattr(ti, integrator)(msh, disc)
    dt = 0.02
    if dtlocal:
        # one time step per cell (directives dtlocal): the same dt_i on the three equations of cell i (flat layout here: k*n+i)
        dt = 0.02 * (1 + 0.5 * np.arange(n) / n)
    dtflat = np.tile(np.atleast_1d(dt), 3) if dtlocal else dt

    def R(Qflat):
        Q = [Qflat[k * n:(k + 1) * n].copy() for k in range(3)]
        r = disc.rhs(field.fdata(model, msh, Q))
        return np.concatenate([np.asarray(x, float) for x in r])

    def J(Qflat):
        m = Qflat.size
        Jm = np.zeros((m, m))
        for j in range(m):
            h = 1e-6 * max(1.0, abs(Qflat[j]))
            e = np.zeros(m); e[j] = h
            Jm[:, j] = (R(Qflat + e) - R(Qflat - e)) / (2 * h)
        return Jm
    flat = lambda fld: np.concatenate([np.asarray(x, float) for x in fld.data])
    I = np.eye(3 * n)
    qprev = None
    ok = True
    for k in range(1, 4):
        q = flat(f)
        Jm, r = J(q), R(q)
        if dtlocal:
            Dinv = np.diag(1.0 / dtflat)
            dq = np.linalg.solve(Dinv - (1.0 if integrator in ("implicit", "backwardeuler") else 0.5) * Jm, r)
        elif integrator in ("implicit", "backwardeuler"):
            dq = np.linalg.solve(I / dt - Jm, r)
        elif integrator == "gear" and qprev is not None:
            dq = np.linalg.solve(1.5 * I / dt - Jm, r + 0.5 * (q - qprev) / dt)
        else:
            dq = np.linalg.solve(I / dt - 0.5 * Jm, r)
        s.step(f, dt)
        got = flat(f) - q
        e = float(np.max(np.abs(got - dq)) / np.max(np.abs(dq)))
        if e > 1e-4:
            show(integrator=integrator, model="euler1d", local_dt=bool(dtlocal), step=k, relative_deviation_of_the_increment=e)
            ok = False
            break
        qprev = q
    return ok


def fd_step_clause(vals):
    import flowdyn.integration as ti
    msh, model, disc, f = _conv_setup()
    Aop = _operator(disc, model, msh)
    s = ti.implicit(msh, disc)
    J = s.calc_jacobian(f)
    err = float(np.max(np.abs(J - Aop)) / np.max(np.abs(Aop)))
    show(relative_jacobian_error=err)
    return err <= 1e-3 * 1e-2


def fd_zero_clause(vals):
    import flowdyn.mesh as mesh, flowdyn.modelphy.euler as eu, flowdyn.modeldisc as md, flowdyn.xnum as xnum, flowdyn.integration as ti
    m = mesh.unimesh(ncell=8, length=1.)
    model = eu.euler1d()
    d = md.fvm1d(model, m, xnum.extrapol1(), numflux='hlle')
    rho = 1 + 0.1 * np.sin(2 * np.pi * m.centers())
    f = d.fdata_fromprim([rho, 0 * rho, 1 + 0 * rho])
    s = ti.implicit(m, d)
    J = s.calc_jacobian(f)
    show(jacobian_finite=bool(np.all(np.isfinite(J))), case="Euler fluid at rest: momentum identically zero")
    return bool(np.all(np.isfinite(J)))


# --------------------------------------------------------------------------------------
# C07 / C08 : the real driver

def step_time_clause(vals, integrator, kind):
    import flowdyn.integration as ti, flowdyn.field as field
    disc = _RecDisc(3)
    s = getattr(ti, integrator)(_Mesh(3), disc)
    f = field.fdata(_M(), _Mesh(3), [np.array([1.0, 0.5, 0.7])], t=0.25)
    dt = 0.1 if kind == "scalar" else np.array([0.3, 0.1, 0.2])
    s.step(f, dt)
    show(integrator=integrator, kind=kind, time_after=f.time)
    return close(f.time, 0.35)


def _driver_problem(implicit=False, integrator=None, n=20):
    import flowdyn.mesh as mesh, flowdyn.modeldisc as md, flowdyn.modelphy.convection as conv, flowdyn.field as field, flowdyn.integration as ti, flowdyn.xnum as xnum
    msh = mesh.unimesh(ncell=n, length=1.0)
    model = conv.model(1.0)
    disc = md.fvm1d(model, msh, xnum.extrapol1())
    q = 1.0 + 0.5 * np.sin(2 * np.pi * msh.centers())
    cls = getattr(ti, integrator) if integrator else (ti.implicit if implicit else ti.explicit)
    return msh, model, disc, field.fdata(model, msh, [q]), cls


def driver_clause(vals, clause, stop="default", dtlocal=False, implicit=False, integrator=None):
    """runs the real solve() on a small convection problem with save times placed as in the solver's
    counterexample (fractions of one step) and checks the statement's clauses on what comes back"""
    msh, model, disc, f0, cls = _driver_problem(implicit, integrator)
    cfl = 0.5
    dt = cfl * (1.0 / msh.ncell) / 1.0
    t = num_or(vals, "t", 0.0)
    md_ = num_or(vals, "mindt", 1.0)
    a = (num_or(vals, "tsave_i", 0.2) - t) / md_ if md_ else 0.2
    b = (num_or(vals, "tsave_i1", 0.5) - t) / md_ if md_ else 0.5
    if clause in ("start", "start-only", "zero-step"):
        tsv = [0.0] if clause == "start-only" else [0.0, 2.5 * dt]
    elif clause == "dense" or not (0 <= a < b <= 1.0):
        tsv = [0.2 * dt, 0.5 * dt, 0.7 * dt, 3.5 * dt]
    else:
        tsv = [a * dt, b * dt, 3.5 * dt]
    if clause == "final-it":
        s = cls(msh, disc)
        r = s.solve(f0, cfl, stop={"maxit": 7})
        show(returned=len(r), it=[x.it for x in r])
        return len(r) == 1 and r[-1].it == 7
    s = cls(msh, disc)
    q0 = f0.data[0].copy()
    res = s.solve(f0, cfl, tsv)
    times = [x.time for x in res]
    show(integrator=cls.__name__, tsave=tsv, returned_times=times, its=[x.it for x in res])
    ok = len(res) == len(tsv) and close(times, tsv, rtol=1e-12) and all(np.all(np.isfinite(x.data[0])) for x in res)
    ok = ok and bool(np.all(f0.data[0] == q0)) and f0.time == 0.0
    # reference: forward partial step from the trajectory state before the save time
    ref = cls(msh, disc)
    Q = f0.copy()
    k = 0
    for ts in tsv:
        while Q.time + dt < ts - 1e-14:
            ref.step(Q, dt)
            k += 1
        side = Q.copy()
        if ts - Q.time > 0:
            cls(msh, disc).step(side, ts - Q.time)
        if len(res) == len(tsv):
            x = res[tsv.index(ts)]
            if not close(x.data[0], side.data[0], rtol=1e-9):
                show(save_time=ts, max_difference_to_forward_reference=float(np.max(np.abs(x.data[0] - side.data[0]))))
                ok = False
            if x.it != k:
                show(save_time=ts, it=x.it, expected_it=k)
                ok = False
    if clause in ("start", "start-only", "zero-step") and len(res):
        ok = ok and close(res[0].data[0], q0, rtol=1e-13)
    return ok


def purity_clause(vals, clause, integrator=None):
    """C08 on the real driver (small convection problem)"""
    import flowdyn.integration as ti
    name = integrator or "explicit"
    msh, model, disc, f0, cls = _driver_problem(integrator=name)
    cfl = 0.5
    dt = cfl / msh.ncell
    if clause == "restart":
        s = cls(msh, disc)
        r1 = s.solve(f0, cfl, stop={"maxit": 7})
        r2 = s.restart(r1[-1], cfl, stop={"maxit": 5})
        s2 = cls(msh, disc)
        r3 = s2.solve(f0, cfl, stop={"maxit": 12})
        show(integrator=name, totnit_after_restart=s.totnit(), it=r2[-1].it, reference_it=r3[-1].it,
             max_diff=float(np.max(np.abs(r2[-1].data[0] - r3[-1].data[0]))))
        return s.totnit() == 12 and r2[-1].it == 12 and close(r2[-1].data[0], r3[-1].data[0], rtol=1e-13) and close(r2[-1].time, r3[-1].time)
    if clause == "repeat":
        s = cls(msh, disc)
        a = s.solve(f0, cfl, stop={"maxit": 6})[-1].data[0].copy()
        b = s.solve(f0, cfl, stop={"maxit": 6})[-1].data[0].copy()
        c = cls(msh, disc).solve(f0, cfl, stop={"maxit": 6})[-1].data[0].copy()
        show(integrator=name, same_object_difference=float(np.max(np.abs(a - b))), fresh_object_difference=float(np.max(np.abs(a - c))))
        return bool(np.all(a == b)) and bool(np.all(a == c))
    if clause == "observer":
        a = cls(msh, disc).solve(f0, cfl, [6 * dt])[-1].data[0].copy()
        b = cls(msh, disc).solve(f0, cfl, [0.3 * dt, 1.5 * dt, 2.2 * dt, 2.6 * dt, 6 * dt])[-1].data[0].copy()
        show(integrator=name, difference_with_extra_snapshots=float(np.max(np.abs(a - b))))
        return bool(np.all(a == b))
    if clause in ("monitor", "monitor-trajectory"):
        mons = {"res": {"type": "residual", "frequency": 3}, "avg": {"type": "data_average", "data": "q", "frequency": 2}}
        s = cls(msh, disc)
        a = s.solve(f0, cfl, stop={"maxit": 7}, monitors=mons)[-1].data[0].copy()
        b = cls(msh, disc).solve(f0, cfl, stop={"maxit": 7})[-1].data[0].copy()
        its_r, its_a = mons["res"]["output"]._it, mons["avg"]["output"]._it
        show(integrator=name, residual_its=its_r, average_its=its_a, difference=float(np.max(np.abs(a - b))))
        ok = bool(np.all(a == b)) and its_r == [0, 3, 6] and its_a == [0, 2, 4, 6]
        # split run: solve(7) then restart(8) with the same monitors records at the multiples of the frequency of the CUMULATIVE count
        mons2 = {"res": {"type": "residual", "frequency": 3}, "avg": {"type": "data_average", "data": "q", "frequency": 5}}
        s2 = cls(msh, disc)
        mid = s2.solve(f0, cfl, stop={"maxit": 7}, monitors=mons2)[-1]
        s2.restart(mid, cfl, stop={"maxit": 8}, monitors=mons2)
        r2, a2 = list(mons2["res"]["output"]._it), list(mons2["avg"]["output"]._it)
        want_r = [k for k in range(0, 16) if k % 3 == 0]
        want_a = [k for k in range(0, 16) if k % 5 == 0]
        if sorted(set(r2)) != want_r or sorted(set(a2)) != want_a:
            show(integrator=name, after_restart_residual_its=r2, expected=want_r, after_restart_average_its=a2, expected_average=want_a)
            ok = False
        return ok
    return True


# --------------------------------------------------------------------------------------
# C14

def shift_clause(vals, kind, num, limiter):
    import flowdyn.mesh as mesh, flowdyn.modeldisc as md, flowdyn.field as field
    ok = True
    for n in (1, 2, 3, 4, 5, 6, 9):
        for flux in ([None] if kind in ("convection", "burgers") else list(build_model(kind, vals)._numfluxdict.dict.keys())):
            model = build_model(kind, vals)
            msh = mesh.unimesh(ncell=n, length=1.3, x0=0.2)
            disc = md.fvm1d(model, msh, _make_num(num, limiter, 0.2), numflux=flux)
            P = _random_prim(kind, n, seed=10 + n)
            P = [1.0 + 0.05 * (p - 1.0) if (kind not in ("convection", "burgers") and j != 1) else 0.3 * p for j, p in enumerate(P)]
            Q = model.prim2cons(P)
            r1 = [x.copy() for x in disc.rhs(field.fdata(model, msh, Q))]
            if not all(np.all(np.isfinite(x)) for x in r1):
                continue
            for k in (1, 2):
                r2 = disc.rhs(field.fdata(model, msh, [np.roll(q, k) for q in Q]))
                for a, b in zip(r1, r2):
                    if not close(np.roll(a, k), b, rtol=1e-10):
                        show(kind=kind, num=num, limiter=limiter, flux=flux, n=n, shift=k,
                             max_diff=float(np.max(np.abs(np.roll(a, k) - b))))
                        ok = False
    return ok


# --------------------------------------------------------------------------------------
# C13

def mirror_clause(vals, kind, num, limiter, bcL, bcR):
    import flowdyn.mesh as mesh, flowdyn.modeldisc as md, flowdyn.field as field
    ok = True
    sgn = {"convection": [1], "burgers": [-1], "shallowwater": [1, -1], "euler1d": [1, -1, 1], "nozzle": [1, -1, 1]}[kind]
    for n in (1, 2, 3, 4, 9):
        for flux in ([None] if kind in ("convection", "burgers") else list(build_model(kind, vals)._numfluxdict.dict.keys())):
            m1 = build_model(kind, dict(vals, a=1.5))
            m2 = build_model(kind, dict(vals, a=-1.5))
            msh1 = mesh.morphedmesh(ncell=n, length=1.0, morph=lambda x: x + 0.4 * x * x)
            msh2 = mesh.morphedmesh(ncell=n, length=1.0, morph=lambda x: x)
            msh2.xf = -msh1.xf[::-1].copy()
            msh2.xc = msh2.calc_centers()
            msh2.length = msh1.length
            P = _random_prim(kind, n, seed=20 + n)
            P = [1.0 + 0.05 * (p - 1.0) if (kind not in ("convection", "burgers") and j != 1) else 0.3 * p for j, p in enumerate(P)]
            W0 = [float(p[0]) for p in P]

            def bcd(name, flip):
                d = _bc(kind, name, W0)
                if name == "dirichlet" and flip:
                    pr = list(d["prim"])
                    if kind == "burgers":
                        pr[0] = -pr[0]
                    elif kind != "convection":
                        pr[1] = -pr[1]
                    d["prim"] = pr
                return d
            nm = _make_num(num, limiter, 0.2)
            d1 = md.fvm1d(m1, msh1, nm, numflux=flux, bcL=bcd(bcL, False), bcR=bcd(bcR, False))
            d2 = md.fvm1d(m2, msh2, nm, numflux=flux, bcL=bcd(bcR, True), bcR=bcd(bcL, True))
            P2 = [(-p if (kind == "burgers" or (kind not in ("convection",) and j == 1)) else p)[::-1].copy() for j, p in enumerate(P)]
            r1 = [x.copy() for x in d1.rhs(field.fdata(m1, msh1, m1.prim2cons(P)))]
            r2 = d2.rhs(field.fdata(m2, msh2, m2.prim2cons(P2)))
            if not all(np.all(np.isfinite(x)) for x in r1):
                continue
            for k in range(len(r1)):
                if not close(r2[k], sgn[k] * r1[k][::-1], rtol=1e-9):
                    show(kind=kind, num=num, limiter=limiter, flux=flux, bc=(bcL, bcR), n=n, comp=k,
                         max_diff=float(np.max(np.abs(r2[k] - sgn[k] * r1[k][::-1]))))
                    ok = False
    return ok


def bc_mirror_clause(vals, kind, bc, dir):
    model = build_model(kind, vals)
    nv = {"convection": 1, "burgers": 1, "shallowwater": 2}.get(kind, 3)
    PP = {"convection": [1], "burgers": [-1], "shallowwater": [1, -1]}.get(kind, [1, -1, 1])
    W = [num_or(vals, "W%d" % k, DEFAULT_STATE[kind][k]) for k in range(nv)]
    prm = {k[4:]: num(v) for k, v in vals.items() if k.startswith("prm_") and v is not None}
    for k, v in {"ptot": 1.4, "rttot": 1.1, "p": 1.0}.items():
        prm.setdefault(k, v)
    prm["type"] = bc
    p1, p2 = dict(prm), dict(prm)
    if bc == "dirichlet":
        p1["prim"] = [np.float64(0.7 + 0.1 * k) for k in range(nv)]
        p2["prim"] = [s * x for s, x in zip(PP, p1["prim"])]
    try:
        o1 = [float(x) for x in model.namedBC(bc, dir, [np.float64(w) for w in W], p1)]
        o2 = [float(x) for x in model.namedBC(bc, -dir, [np.float64(s * w) for s, w in zip(PP, W)], p2)]
    except Exception as e:
        print("  raised", e)
        return True
    show(kind=kind, bc=bc, dir=dir, W=W, out=o1, mirrored_out=o2)
    if not (np.all(np.isfinite(o1)) and np.all(np.isfinite(o2))):
        return True
    return close(o2, [s * x for s, x in zip(PP, o1)])


# --------------------------------------------------------------------------------------
# C09

def maxprinciple_clause(vals, model, num, limiter, cfl):
    import flowdyn.mesh as mesh, flowdyn.modeldisc as md, flowdyn.modelphy.burgers as bu, flowdyn.modelphy.convection as conv
    import flowdyn.xnum as xnum, flowdyn.integration as ti, flowdyn.field as field, itertools
    ok = True
    lims = ["minmod", "vanalbada", "vanleer", "superbee"] if limiter == "all" else [limiter]
    vals5 = [-2.0, -1.0, 0.3, 1.0, 3.0]
    for lim in lims:
        for a in ([1.5, -0.7] if model == "convection" else [None]):
            for integ in ("explicit", "rk2_heun", "rk3ssp"):
                for d in [np.array(p) for n in (3, 4, 5, 6) for p in itertools.product(vals5, repeat=n)][::11]:
                    n = len(d)
                    msh = mesh.unimesh(ncell=n, length=1.0) if num == "muscl" else mesh.morphedmesh(ncell=n, length=1.0, morph=lambda x: x + 0.4 * x * x)
                    mdl = conv.model(a) if model == "convection" else bu.model()
                    nm = xnum.muscl(getattr(xnum, lim)) if num == "muscl" else xnum.extrapol1()
                    disc = md.fvm1d(mdl, msh, nm)
                    f = field.fdata(mdl, msh, [d.copy()])
                    dt = float(np.min(disc.calc_timestep(f, cfl)))
                    getattr(ti, integ)(msh, disc).step(f, dt)
                    q = f.data[0]
                    tv0, tv1 = np.sum(np.abs(np.roll(d, -1) - d)), np.sum(np.abs(np.roll(q, -1) - q))
                    if q.min() < d.min() - 1e-12 or q.max() > d.max() + 1e-12 or tv1 > tv0 * (1 + 1e-12) + 1e-13:
                        show(model=model, limiter=lim, a=a, integrator=integ, data=d.tolist(), after=q.tolist(), tv=(tv0, tv1))
                        ok = False
                        break
    return ok


def positivity_clause(vals, kind, flux, bc, integ, cfl, prim):
    """re-run the failing case of the C10 bounded stand-in on the real first-order solver (6 steps)"""
    import flowdyn.mesh as mesh, flowdyn.modeldisc as md, flowdyn.modelphy.euler as eu, flowdyn.modelphy.shallowwater as sw
    import flowdyn.xnum as xnum, flowdyn.integration as ti, flowdyn.field as field, warnings
    warnings.filterwarnings("ignore")
    prim = [np.array(x, dtype=float) for x in prim]
    n = len(prim[0])
    msh = mesh.unimesh(ncell=n, length=1.0)
    ok = True
    for gam in ((1.2, 1.4, 5 / 3) if kind == "euler" else (None,)):
        model = eu.euler1d(gamma=gam) if kind == "euler" else sw.shallowwater1d()
        b = {"type": bc}
        disc = md.fvm1d(model, msh, xnum.extrapol1(), numflux=flux, bcL=b, bcR=b)
        f = field.fdata(model, msh, model.prim2cons([x.copy() for x in prim]))
        s = getattr(ti, integ)(msh, disc)
        for it in range(6):
            dt = float(np.min(disc.calc_timestep(f, cfl)))
            s.step(f, dt)
            q = f.data
            good = np.all(np.isfinite(q[0])) and np.all(q[0] > 0)
            if kind == "euler":
                pr = model.pressure(q)
                good = good and np.all(np.isfinite(pr)) and np.all(pr > 0)
            if not good:
                show(kind=kind, flux=flux, bc=bc, integrator=integ, cfl=cfl, gamma=gam, step=it + 1, prim=[x.tolist() for x in prim],
                     density_or_depth=np.asarray(q[0]).tolist())
                ok = False
                break
    return ok


def conservation2d_clause(vals, num, bx, by):
    import flowdyn.mesh2d as mesh2d, flowdyn.modeldisc as md, flowdyn.modelphy.euler as eu, flowdyn.xnum as xnum, flowdyn.field as field
    ok = True
    for nx, ny in ((1, 1), (2, 3), (3, 2), (5, 4)):
        for flux in ("centered", "hlle"):
            msh = mesh2d.mesh2d(nx, ny, 1.3, 0.7)
            model = eu.euler2d()
            nm = xnum.extrapol2d1() if num == "extrapol2d1" else xnum.extrapol2dk(1. / 3.)
            bc = {"left": {"type": bx}, "right": {"type": bx}, "bottom": {"type": by}, "top": {"type": by}}
            disc = md.fvm2dcart(model, msh, nm, bc, numflux=flux)
            rng = np.random.default_rng(nx * 10 + ny)
            n = nx * ny
            rho, p = 1 + 0.05 * rng.uniform(-1, 1, n), 1 + 0.05 * rng.uniform(-1, 1, n)
            V = 0.2 * rng.uniform(-1, 1, (2, n))
            f = field.fdata(model, msh, model.prim2cons([rho, V, p]))
            res = disc.rhs(f)
            vol = msh.vol()
            # per-cell balance against the face fluxes the operator itself computed (x-faces row by row, then y-faces)
            dx, dy, fsh = msh.dx(), msh.dy(), ny * (nx + 1)
            G = [np.asarray(disc.flux[0]), np.asarray(disc.flux[1])[0], np.asarray(disc.flux[1])[1], np.asarray(disc.flux[2])]
            R = [np.asarray(res[0]), np.asarray(res[1])[0], np.asarray(res[1])[1], np.asarray(res[2])]
            for k in range(4):
                for J in range(ny):
                    for I_ in range(nx):
                        c = J * nx + I_
                        bal = -dy * (G[k][J * (nx + 1) + I_ + 1] - G[k][J * (nx + 1) + I_]) \
                              - dx * (G[k][fsh + (J + 1) * nx + I_] - G[k][fsh + J * nx + I_])
                        if abs(R[k][c] * dx * dy - bal) > 1e-10 * max(1.0, abs(bal)):
                            show(num=num, bc=(bx, by), nx=nx, ny=ny, flux=flux, comp=k, cell=(J, I_), res_dx_dy=float(R[k][c] * dx * dy),
                                 flux_balance=float(bal))
                            ok = False
                            break
                    if not ok:
                        break
            for k in (0, 2):
                I = float(np.sum(res[k] * vol))
                if abs(I) > 1e-10:
                    show(num=num, bc=(bx, by), nx=nx, ny=ny, flux=flux, comp=k, integral=I)
                    ok = False
            if bx == "per" and by == "per":
                Im = np.sum(res[1] * vol, axis=1)
                if np.max(np.abs(Im)) > 1e-10:
                    show(num=num, nx=nx, ny=ny, flux=flux, momentum_integral=Im.tolist())
                    ok = False
    return ok


# ---- C15: 2-D symmetries and agreement with 1-D -------------------------------------------------------------------------

def _tr_state(W, transform):
    """image of a 2-D primitive / conservative data list [s, V(2,n), s] (cell order unchanged)"""
    r, V, p = W
    V = np.array(V, dtype=float)
    if transform == "transpose":
        V = V[::-1].copy()
    elif transform == "reflect-x":
        V[0] = -V[0]
    elif transform == "reflect-y":
        V[1] = -V[1]
    return [np.array(r, dtype=float), V, np.array(p, dtype=float)]


def _rand_states2d(rng, n):
    rho = 10 ** rng.uniform(-1, 1, n)
    p = 10 ** rng.uniform(-1, 1, n)
    c = np.sqrt(1.4 * p / rho)
    V = rng.uniform(-2.5, 2.5, (2, n)) * c
    return [rho, V, p]


def flux2d_symmetry_clause(vals, flux, clause, comp=None):
    import flowdyn.modelphy.euler as eu
    rng = np.random.default_rng(7)
    n = 400
    ok = True
    for gam in (1.4, 5 / 3):
        m2 = eu.euler2d(gamma=gam)
        WL, WR = _rand_states2d(rng, n), _rand_states2d(rng, n)
        ex, ey = np.array([[1.0] * n, [0.0] * n]), np.array([[0.0] * n, [1.0] * n])
        if clause.startswith("one-dimensional"):
            d = clause.split("/")[1]
            m1 = eu.euler1d(gamma=gam)
            u = 0 if d == "x" else 1
            for W in (WL, WR):
                W[1][1 - u] = 0.0
            F2 = m2.numflux(flux, WL, WR, ex if d == "x" else ey)
            F1 = m1.numflux(flux, [WL[0], WL[1][u], WL[2]], [WR[0], WR[1][u], WR[2]])
            want = [F1[0], None, F1[2]]
            got2 = [F2[0], F2[1][u], F2[1][1 - u], F2[2]]
            errs = [np.max(np.abs(got2[0] - F1[0])), np.max(np.abs(got2[1] - F1[1])), np.max(np.abs(got2[2])),
                    np.max(np.abs(got2[3] - F1[2]))]
            scale = max(1.0, float(np.max(np.abs(F1[2]))))
            if max(errs) > 1e-10 * scale:
                show(flux=flux, clause=clause, gamma=gam, errors=[float(e) for e in errs])
                ok = False
            continue
        tr, kind = (clause.split("/") + [""])[:2]
        if tr in ("transpose", "transpose-back"):
            n1, n2 = (ex, ey) if tr == "transpose" else (ey, ex)
            F1 = m2.numflux(flux, WL, WR, n1)
            F2 = m2.numflux(flux, _tr_state(WL, "transpose"), _tr_state(WR, "transpose"), n2)
            want = _tr_state(F1, "transpose")
        else:
            d = 0 if tr == "reflect-x" else 1
            nrm = (ex, ey)[d] if kind == "normal" else (ey, ex)[d]
            F1 = m2.numflux(flux, WL, WR, nrm)
            if kind == "normal":
                F2 = m2.numflux(flux, _tr_state(WR, tr), _tr_state(WL, tr), nrm)
                w = _tr_state(F1, tr)
                want = [-w[0], -w[1], -w[2]]
            else:
                F2 = m2.numflux(flux, _tr_state(WL, tr), _tr_state(WR, tr), nrm)
                want = _tr_state(F1, tr)
        err = max(float(np.max(np.abs(F2[0] - want[0]))), float(np.max(np.abs(F2[1] - want[1]))), float(np.max(np.abs(F2[2] - want[2]))))
        scale = max(1.0, float(np.max(np.abs(F1[2]))))
        if not err <= 1e-10 * scale:
            k = int(np.argmax(np.abs(F2[2] - want[2]) + np.abs(F2[0] - want[0]) + np.sum(np.abs(F2[1] - want[1]), axis=0)))
            show(flux=flux, clause=clause, gamma=gam, error=err, WL=[float(WL[0][k]), WL[1][:, k].tolist(), float(WL[2][k])],
                 WR=[float(WR[0][k]), WR[1][:, k].tolist(), float(WR[2][k])])
            ok = False
    return ok


_SIDES2D = {"left": (-1.0, 0.0), "right": (1.0, 0.0), "bottom": (0.0, -1.0), "top": (0.0, 1.0)}


def bc2d_symmetry_clause(vals, bc, transform, side):
    import flowdyn.modelphy.euler as eu
    rng = np.random.default_rng(11)
    n = 200
    ok = True
    for gam in (1.4, 5 / 3):
        m2 = eu.euler2d(gamma=gam)
        W = _rand_states2d(rng, n)
        prm = {"type": bc, "ptot": 30.0, "rttot": 3.0, "p": 0.7}
        d = _SIDES2D[side]
        dirv = np.array([[d[0]] * n, [d[1]] * n])
        if transform == "one-dimensional":
            m1 = eu.euler1d(gamma=gam)
            alongx = side in ("left", "right")
            u = 0 if alongx else 1
            W[1][1 - u] = 0.0
            o2 = m2.namedBC(bc, dirv, W, prm)
            o1 = m1.namedBC(bc, d[u], [W[0], W[1][u], W[2]], prm)
            o2 = [np.broadcast_to(o2[0], (n,)), np.broadcast_to(np.asarray(o2[1]), (2, n)), np.broadcast_to(o2[2], (n,))]
            errs = [np.max(np.abs(o2[0] - o1[0])), np.max(np.abs(o2[1][u] - o1[1])), np.max(np.abs(o2[1][1 - u])), np.max(np.abs(o2[2] - o1[2]))]
            if not max(errs) <= 1e-10:
                show(bc=bc, transform=transform, side=side, gamma=gam, errors=[float(e) for e in errs])
                ok = False
            continue
        dmap = {"transpose": lambda v: (v[1], v[0]), "reflect-x": lambda v: (-v[0], v[1]), "reflect-y": lambda v: (v[0], -v[1])}[transform]
        d2 = dmap(d)
        o1 = m2.namedBC(bc, dirv, W, prm)
        o2 = m2.namedBC(bc, np.array([[d2[0]] * n, [d2[1]] * n]), _tr_state(W, transform), prm)
        o1 = [np.broadcast_to(o1[0], (n,)), np.broadcast_to(np.asarray(o1[1]), (2, n)), np.broadcast_to(o1[2], (n,))]
        o2 = [np.broadcast_to(o2[0], (n,)), np.broadcast_to(np.asarray(o2[1]), (2, n)), np.broadcast_to(o2[2], (n,))]
        want = _tr_state(o1, transform)
        err = max(float(np.max(np.abs(o2[0] - want[0]))), float(np.max(np.abs(o2[1] - want[1]))), float(np.max(np.abs(o2[2] - want[2]))))
        if not err <= 1e-10:
            show(bc=bc, transform=transform, side=side, gamma=gam, error=err)
            ok = False
    return ok


def _bcdict2d(tag):
    return {"type": tag, "ptot": 1.6, "rttot": 1.1, "p": 0.9}


def sym2d_clause(vals, num, transform, bc):
    """rhs of the image problem (transposed / reflected grid and data, boundary tags moved accordingly) against the image of the rhs"""
    import flowdyn.mesh2d as mesh2d, flowdyn.modeldisc as md, flowdyn.modelphy.euler as eu, flowdyn.xnum as xnum, flowdyn.field as field
    bl, br, bb, bt = bc
    ok = True
    for nx, ny, lx, ly in ((1, 1, 1.0, 2.0), (2, 3, 1.3, 0.7), (3, 2, 0.9, 1.7), (5, 4, 2.0, 1.0), (4, 6, 1.0, 1.0)):
        for flux in ("centered", "hlle"):
            for kap in ((None,) if num == "extrapol2d1" else (1. / 3., -1.0, 0.4)):
                model = eu.euler2d()
                mk = (lambda: xnum.extrapol2d1()) if num == "extrapol2d1" else (lambda: xnum.extrapol2dk(kap))
                rng = np.random.default_rng(100 * nx + ny)
                n = nx * ny
                rho, p = 1 + 0.3 * rng.uniform(-1, 1, n), 1 + 0.3 * rng.uniform(-1, 1, n)
                V = 0.4 * rng.uniform(-1, 1, (2, n))
                bc1 = {"left": _bcdict2d(bl), "right": _bcdict2d(br), "bottom": _bcdict2d(bb), "top": _bcdict2d(bt)}
                m1 = mesh2d.mesh2d(nx, ny, lx, ly)
                try:
                    d1 = md.fvm2dcart(model, m1, mk(), bc1, numflux=flux)
                    r1 = d1.rhs(field.fdata(model, m1, model.prim2cons([rho, V, p])))
                except Exception as e:      # the real operator raises on a valid problem: a failing input
                    show(num=num, transform=transform, bc=bc, nx=nx, ny=ny, flux=flux, kappa=kap, exception=repr(e))
                    ok = False
                    continue
                grid = lambda a: np.asarray(a).reshape(ny, nx)
                if transform == "transpose":
                    m2 = mesh2d.mesh2d(ny, nx, ly, lx)
                    bc2 = {"left": bc1["bottom"], "right": bc1["top"], "bottom": bc1["left"], "top": bc1["right"]}
                    perm = lambda a: grid(a).T.reshape(-1)
                elif transform == "reflect-x":
                    m2 = mesh2d.mesh2d(nx, ny, lx, ly)
                    bc2 = {"left": bc1["right"], "right": bc1["left"], "bottom": bc1["bottom"], "top": bc1["top"]}
                    perm = lambda a: grid(a)[:, ::-1].reshape(-1)
                else:
                    m2 = mesh2d.mesh2d(nx, ny, lx, ly)
                    bc2 = {"left": bc1["left"], "right": bc1["right"], "bottom": bc1["top"], "top": bc1["bottom"]}
                    perm = lambda a: grid(a)[::-1, :].reshape(-1)
                img = lambda W: _tr_state([perm(W[0]), np.array([perm(W[1][0]), perm(W[1][1])]), perm(W[2])], transform)
                P2 = img([rho, V, p])
                try:
                    d2 = md.fvm2dcart(model, m2, mk(), bc2, numflux=flux)
                    r2 = d2.rhs(field.fdata(model, m2, model.prim2cons(P2)))
                except Exception as e:
                    show(num=num, transform=transform, bc=bc, nx=nx, ny=ny, flux=flux, kappa=kap, exception_on_image=repr(e))
                    ok = False
                    continue
                want = img(r1)
                err = max(float(np.max(np.abs(r2[0] - want[0]))), float(np.max(np.abs(r2[1] - want[1]))), float(np.max(np.abs(r2[2] - want[2]))))
                scale = max(1.0, float(np.max(np.abs(r1[2]))))
                if not err <= 1e-9 * scale:
                    show(num=num, transform=transform, bc=bc, nx=nx, ny=ny, lx=lx, ly=ly, flux=flux, kappa=kap, error=err)
                    ok = False
    return ok


def agree1d_clause(vals, num, direction, bc, transverse):
    """2-D operator on data constant along the other direction (zero transverse velocity) against the 1-D operator, row by row"""
    import flowdyn.mesh2d as mesh2d, flowdyn.mesh as mesh1, flowdyn.modeldisc as md, flowdyn.modelphy.euler as eu
    import flowdyn.xnum as xnum, flowdyn.field as field
    b0, b1 = bc
    ok = True
    for nl, nt, ll, lt in ((1, 1, 1.0, 2.0), (2, 3, 1.3, 0.7), (5, 2, 0.9, 1.7), (7, 4, 2.0, 1.0)):
        for flux in ("centered", "hlle"):
            for kap in ((None,) if num == "extrapol2d1" else (1. / 3., -1.0, 0.4)):
                model2, model1 = eu.euler2d(), eu.euler1d()
                rng = np.random.default_rng(10 * nl + nt)
                rho1, p1, u1 = 1 + 0.3 * rng.uniform(-1, 1, nl), 1 + 0.3 * rng.uniform(-1, 1, nl), 0.4 * rng.uniform(-1, 1, nl)
                msh1 = mesh1.unimesh(ncell=nl, length=ll)
                n1 = xnum.extrapol1() if num == "extrapol2d1" else xnum.extrapolk(kap)
                d1 = md.fvm1d(model1, msh1, n1, numflux=flux, bcL=_bcdict2d(b0), bcR=_bcdict2d(b1))
                r1 = d1.rhs(field.fdata(model1, msh1, model1.prim2cons([rho1, u1, p1])))
                n2 = xnum.extrapol2d1() if num == "extrapol2d1" else xnum.extrapol2dk(kap)
                if direction == "x":
                    m2 = mesh2d.mesh2d(nl, nt, ll, lt)
                    bcs = {"left": _bcdict2d(b0), "right": _bcdict2d(b1), "bottom": _bcdict2d(transverse), "top": _bcdict2d(transverse)}
                    ext = lambda a: np.tile(a, nt)
                    V = np.array([ext(u1), 0 * ext(u1)])
                    rows = lambda a: np.asarray(a).reshape(nt, nl)
                else:
                    m2 = mesh2d.mesh2d(nt, nl, lt, ll)
                    bcs = {"bottom": _bcdict2d(b0), "top": _bcdict2d(b1), "left": _bcdict2d(transverse), "right": _bcdict2d(transverse)}
                    ext = lambda a: np.repeat(a, nt)
                    V = np.array([0 * ext(u1), ext(u1)])
                    rows = lambda a: np.asarray(a).reshape(nl, nt).T
                try:
                    d2 = md.fvm2dcart(model2, m2, n2, bcs, numflux=flux)
                    r2 = d2.rhs(field.fdata(model2, m2, model2.prim2cons([ext(rho1), V, ext(p1)])))
                except Exception as e:
                    show(num=num, direction=direction, bc=bc, transverse=transverse, n_long=nl, n_trans=nt, flux=flux, kappa=kap, exception=repr(e))
                    ok = False
                    continue
                kn, kt = (0, 1) if direction == "x" else (1, 0)
                errs = [float(np.max(np.abs(rows(r2[0]) - r1[0]))), float(np.max(np.abs(rows(r2[1][kn]) - r1[1]))),
                        float(np.max(np.abs(r2[1][kt]))), float(np.max(np.abs(rows(r2[2]) - r1[2])))]
                scale = max(1.0, float(np.max(np.abs(r1[2]))))
                if not max(errs) <= 1e-9 * scale:
                    show(num=num, direction=direction, bc=bc, transverse=transverse, n_long=nl, n_trans=nt, flux=flux, kappa=kap, errors=errs)
                    ok = False
    return ok


def shift2d_clause(vals, num, direction):
    """2-D periodic operator on data rolled by one cell along x or y against the rolled residual"""
    import flowdyn.mesh2d as mesh2d, flowdyn.modeldisc as md, flowdyn.modelphy.euler as eu, flowdyn.xnum as xnum, flowdyn.field as field
    ok = True
    for nx, ny, lx, ly in ((1, 1, 1.0, 2.0), (2, 3, 1.3, 0.7), (3, 2, 0.9, 1.7), (5, 4, 2.0, 1.0), (1, 4, 1.0, 1.0), (4, 1, 1.0, 1.0)):
        for flux in ("centered", "hlle"):
            for kap in ((None,) if num == "extrapol2d1" else (1. / 3., -1.0, 0.4)):
                model = eu.euler2d()
                mk = (lambda: xnum.extrapol2d1()) if num == "extrapol2d1" else (lambda: xnum.extrapol2dk(kap))
                rng = np.random.default_rng(100 * nx + ny)
                n = nx * ny
                rho, p = 1 + 0.3 * rng.uniform(-1, 1, n), 1 + 0.3 * rng.uniform(-1, 1, n)
                V = 0.4 * rng.uniform(-1, 1, (2, n))
                per = {"type": "per"}
                bc = {"left": per, "right": per, "bottom": per, "top": per}
                msh = mesh2d.mesh2d(nx, ny, lx, ly)
                ax = 1 if direction == "x" else 0
                roll = lambda a: np.roll(np.asarray(a).reshape(ny, nx), 1, axis=ax).reshape(-1)
                img = lambda W: [roll(W[0]), np.array([roll(W[1][0]), roll(W[1][1])]), roll(W[2])]
                try:
                    r1 = md.fvm2dcart(model, msh, mk(), bc, numflux=flux).rhs(field.fdata(model, msh, model.prim2cons([rho, V, p])))
                    r2 = md.fvm2dcart(model, msh, mk(), bc, numflux=flux).rhs(field.fdata(model, msh, model.prim2cons(img([rho, V, p]))))
                except Exception as e:
                    show(num=num, direction=direction, nx=nx, ny=ny, flux=flux, kappa=kap, exception=repr(e))
                    ok = False
                    continue
                want = img(r1)
                err = max(float(np.max(np.abs(r2[0] - want[0]))), float(np.max(np.abs(r2[1] - want[1]))), float(np.max(np.abs(r2[2] - want[2]))))
                if not err <= 1e-9 * max(1.0, float(np.max(np.abs(r1[2])))):
                    show(num=num, direction=direction, nx=nx, ny=ny, flux=flux, kappa=kap, error=err)
                    ok = False
    return ok


# ---- C13: change of units (bit for bit for power-of-two factors) ------------------------------------------------------

def units_clause(vals, kind, flux, num, limiter, bcL, bcR):
    """the real operator and time step on a problem and on the same problem in other units (factors 2^k): the result must be
    the rescaled one bit for bit; data with O(1) and with very small variations (limiter regularisations act on small slopes)"""
    import flowdyn.mesh as mesh, flowdyn.modeldisc as md, flowdyn.field as field
    ok = True
    for (ea, eb, el) in ((7, -5, 9), (-30, 12, 3), (40, 20, -10)):
        a, b, l = 2.0 ** ea, 2.0 ** eb, 2.0 ** el
        for amp in (1.0, 1e-9, 1e-19):
            for n in (5, 8):
                xf = np.cumsum(np.concatenate([[0.25], 0.5 + np.arange(n) * 0.125]))
                rng = np.random.default_rng(17 * n + ea)
                P = _random_prim(kind, n, seed=3 * n)
                P = [np.full(n, float(p[0])) + amp * (p - p[0]) for p in P]
                if kind == "convection":
                    sP, sQ, spar, aconv = [a], [a], {}, 1.5
                    m1 = build_model(kind, {"a": 1.5}); m2 = build_model(kind, {"a": 1.5 * b})
                elif kind == "burgers":
                    sP, sQ = [b], [b]
                    m1 = build_model(kind, {}); m2 = build_model(kind, {})
                elif kind == "shallowwater":
                    sP, sQ = [a, b], [a, a * b]
                    m1 = build_model(kind, {"g": 9.8125}); m2 = build_model(kind, {"g": 9.8125 * b * b / a})
                else:
                    sP, sQ = [a, b, a * b * b], [a, a * b, a * b * b]
                    m1 = build_model(kind, {}); m2 = build_model(kind, {})

                def bcd(name, scaled):
                    d = {"type": name}
                    if name == "dirichlet":
                        d["prim"] = [np.float64(w) * (s if scaled else 1.0) for w, s in zip(DEFAULT_STATE[kind], sP)]
                    f_ = (a * b * b, b * b, a * b * b) if scaled else (1.0, 1.0, 1.0)
                    d.update({"ptot": 1.625 * f_[0], "rttot": 1.125 * f_[1], "p": 0.875 * f_[2]})
                    return d
                try:
                    msh1 = mesh.mesh1d(xf=xf) if hasattr(mesh, "mesh1d") and False else None
                except Exception:
                    msh1 = None
                msh1 = mesh.unimesh(ncell=n, length=1.0)
                msh2 = mesh.unimesh(ncell=n, length=1.0)
                # general face distribution written into the uniform mesh objects (same attributes as every 1-D mesh class)
                for msh, s_ in ((msh1, 1.0), (msh2, l)):
                    msh.xf = xf * s_
                    msh.xc = 0.5 * (msh.xf[1:] + msh.xf[:-1])
                    msh.length = msh.xf[-1] - msh.xf[0]
                d1 = md.fvm1d(m1, msh1, _make_num(num, limiter, 0.25), numflux=flux, bcL=bcd(bcL, False), bcR=bcd(bcR, False))
                d2 = md.fvm1d(m2, msh2, _make_num(num, limiter, 0.25), numflux=flux, bcL=bcd(bcL, True), bcR=bcd(bcR, True))
                with warnings.catch_warnings():
                    warnings.simplefilter("ignore")
                    Q1 = m1.prim2cons([p.copy() for p in P])
                    Q2 = m2.prim2cons([p * s for p, s in zip(P, sP)])
                    r1 = d1.rhs(field.fdata(m1, msh1, Q1))
                    r2 = d2.rhs(field.fdata(m2, msh2, Q2))
                    t1 = np.asarray(d1.calc_timestep(field.fdata(m1, msh1, Q1), 0.5))
                    t2 = np.asarray(d2.calc_timestep(field.fdata(m2, msh2, Q2), 0.5))
                for k in range(len(r1)):
                    want = np.asarray(r1[k]) * (sQ[k] * b / l)
                    got = np.asarray(r2[k])
                    if not np.array_equal(want, got, equal_nan=True):
                        j = int(np.argmax(np.abs(got - want)))
                        show(kind=kind, flux=flux, num=num, limiter=limiter, bc=(bcL, bcR), factors="2^(%d,%d,%d)" % (ea, eb, el), amplitude=amp, n=n,
                             component=k, cell=j, rescaled_residual=float(want[j]), residual_in_new_units=float(got[j]))
                        ok = False
                        break
                if not np.array_equal(t1 * (l / b), t2, equal_nan=True):
                    show(kind=kind, factors="2^(%d,%d,%d)" % (ea, eb, el), timestep_rescaled=(t1 * (l / b)).tolist()[:3], timestep_new_units=t2.tolist()[:3])
                    ok = False
                if not ok:
                    return False
    return ok


def timestep2d_clause(vals):
    """fvm2dcart.calc_timestep on stretched and square cells against CFL*dx*dy/(dx+dy)/(|V|+c)"""
    import flowdyn.mesh2d as mesh2d, flowdyn.modeldisc as md, flowdyn.modelphy.euler as eu, flowdyn.xnum as xnum, flowdyn.field as field
    ok = True
    for nx, ny, lx, ly in ((4, 4, 1.0, 1.0), (20, 5, 1.0, 1.0), (5, 20, 1.0, 1.0), (12, 7, 3.0, 0.5)):
        model = eu.euler2d(gamma=1.4)
        msh = mesh2d.mesh2d(nx, ny, lx, ly)
        per = {"type": "per"}
        disc = md.fvm2dcart(model, msh, xnum.extrapol2d1(), {"left": per, "right": per, "bottom": per, "top": per})
        rng = np.random.default_rng(nx + ny)
        n = nx * ny
        rho, p = 1 + 0.3 * rng.uniform(-1, 1, n), 1 + 0.3 * rng.uniform(-1, 1, n)
        V = 0.4 * rng.uniform(-1, 1, (2, n))
        f = field.fdata(model, msh, model.prim2cons([rho, V, p]))
        dt = np.asarray(disc.calc_timestep(f, 0.7), dtype=float)
        dx, dy = lx / nx, ly / ny
        want = 0.7 * dx * dy / (dx + dy) / (np.sqrt(V[0] ** 2 + V[1] ** 2) + np.sqrt(1.4 * p / rho))
        if dt.shape != (n,) or not np.allclose(dt, want, rtol=1e-12, atol=0):
            show(nx=nx, ny=ny, lx=lx, ly=ly, timestep=dt.reshape(-1)[:3].tolist(), expected=want[:3].tolist())
            ok = False
    return ok


def uniform2d_clause(vals, num, bc, flow):
    """2-D operator on a uniform state with matched boundary conditions: the residual vanishes"""
    import flowdyn.mesh2d as mesh2d, flowdyn.modeldisc as md, flowdyn.modelphy.euler as eu, flowdyn.xnum as xnum, flowdyn.field as field
    ok = True
    g = 1.4
    for (rho, mach, p) in ((1.0, 0.3, 1.0), (0.7, 1.8, 2.5), (2.0, 0.0, 0.4)):
        c = math.sqrt(g * p / rho)
        q = mach * c
        if flow == "any":
            V = (q * math.cos(0.7), q * math.sin(0.7))
        elif flow == "+x":
            V = (q, 0.0)
        elif flow == "-x":
            V = (-q, 0.0)
        elif flow == "+y":
            V = (0.0, q)
        else:
            V = (0.0, 0.0)
        if ("insup" in bc or "outsup" in bc) and mach <= 1:
            continue
        if ("insub" in bc) and mach >= 1:
            continue
        X = 1 + (g - 1) / 2 * mach * mach
        prm = {"ptot": p * X ** (g / (g - 1)), "rttot": p / rho * X, "p": p}
        for nx, ny, lx, ly in ((1, 1, 1.0, 2.0), (3, 2, 0.9, 1.7), (5, 4, 2.0, 1.0)):
            for flux in ("centered", "hlle"):
                for kap in ((None,) if num == "extrapol2d1" else (1. / 3., -1.0)):
                    model = eu.euler2d(gamma=g)
                    nm = xnum.extrapol2d1() if num == "extrapol2d1" else xnum.extrapol2dk(kap)
                    bcs = {s: dict(prm, type=t) for s, t in zip(("left", "right", "bottom", "top"), bc)}
                    msh = mesh2d.mesh2d(nx, ny, lx, ly)
                    n = nx * ny
                    try:
                        disc = md.fvm2dcart(model, msh, nm, bcs, numflux=flux)
                        f = field.fdata(model, msh, model.prim2cons([np.full(n, rho), np.array([np.full(n, V[0]), np.full(n, V[1])]), np.full(n, p)]))
                        r = disc.rhs(f)
                    except Exception as e:
                        show(num=num, bc=bc, nx=nx, ny=ny, flux=flux, exception=repr(e))
                        ok = False
                        continue
                    err = max(float(np.max(np.abs(r[0]))), float(np.max(np.abs(r[1]))), float(np.max(np.abs(r[2]))))
                    if not err <= 1e-10 * max(1.0, p * (q + c) / min(lx / nx, ly / ny)):
                        show(num=num, bc=bc, state=(rho, V, p), nx=nx, ny=ny, flux=flux, kappa=kap, residual=err)
                        ok = False
    return ok


def kappa2d_clause(vals, num):
    """face states of the 2-D reconstructions on the periodic grid against the kappa-scheme states of each row / column"""
    import flowdyn.mesh2d as mesh2d, flowdyn.modeldisc as md, flowdyn.modelphy.euler as eu, flowdyn.xnum as xnum, flowdyn.field as field
    ok = True
    for nx, ny in ((1, 1), (2, 3), (3, 2), (5, 4)):
        for kap in ((None,) if num == "extrapol2d1" else (1. / 3., -1.0, 0.4)):
            model = eu.euler2d()
            nm = xnum.extrapol2d1() if num == "extrapol2d1" else xnum.extrapol2dk(kap)
            per = {"type": "per"}
            msh = mesh2d.mesh2d(nx, ny, 1.3, 0.7)
            disc = md.fvm2dcart(model, msh, nm, {"left": per, "right": per, "bottom": per, "top": per}, numflux="centered")
            rng = np.random.default_rng(10 * nx + ny)
            n = nx * ny
            rho, p = 1 + 0.3 * rng.uniform(-1, 1, n), 1 + 0.3 * rng.uniform(-1, 1, n)
            V = 0.4 * rng.uniform(-1, 1, (2, n))
            try:
                disc.rhs(field.fdata(model, msh, model.prim2cons([rho, V, p])))
            except Exception as e:
                show(num=num, nx=nx, ny=ny, kappa=kap, exception=repr(e))
                ok = False
                continue
            k_ = 0.0 if kap is None else kap
            km, kp = ((1 - k_) / 4, (1 + k_) / 4) if kap is not None else (0.0, 0.0)
            U = rho.reshape(ny, nx)
            pL, pR = np.asarray(disc.pL[0]), np.asarray(disc.pR[0])
            fsh = ny * (nx + 1)
            for J in range(ny):
                for I in range(nx):
                    um, umm, u0, up = U[J, (I - 1) % nx], U[J, (I - 2) % nx], U[J, I], U[J, (I + 1) % nx]
                    wl = um + km * (um - umm) + kp * (u0 - um)
                    wr = u0 - km * (up - u0) - kp * (u0 - um)
                    f = J * (nx + 1) + I
                    vm, vmm, vp = U[(J - 1) % ny, I], U[(J - 2) % ny, I], U[(J + 1) % ny, I]
                    yl = vm + km * (vm - vmm) + kp * (u0 - vm)
                    yr = u0 - km * (vp - u0) - kp * (u0 - vm)
                    fy = fsh + J * nx + I
                    if not (close(pL[f], wl) and close(pR[f], wr) and close(pL[fy], yl) and close(pR[fy], yr)):
                        show(num=num, nx=nx, ny=ny, kappa=kap, cell=(J, I), x_face=(float(pL[f]), float(pR[f])), kappa_states_x=(float(wl), float(wr)),
                             y_face=(float(pL[fy]), float(pR[fy])), kappa_states_y=(float(yl), float(yr)))
                        ok = False
    return ok
