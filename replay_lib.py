"""Replay of solver counterexamples on the REAL flowdyn code (run with /venv/bin/python).

Every function returns True when the clause HOLDS on the real code for the given values
(counterexample not reproduced) and False when it FAILS (violation reproduced).
"""
import math
import sys
import warnings
from fractions import Fraction
import numpy as np

warnings.filterwarnings("ignore")
RTOL = 1e-9


def num(s, default=None):
    if s is None:
        return default
    if isinstance(s, (int, float)):
        return float(s)
    s = str(s)
    if s in ("true", "false"):
        return s == "true"
    try:
        if "/" in s:
            a, b = s.split("/")
            return float(Fraction(int(a), int(b)))
        return float(s.rstrip("?"))
    except Exception:
        return default


def close(x, y, scale=None, rtol=RTOL):
    x, y = np.asarray(x, dtype=float), np.asarray(y, dtype=float)
    if not (np.all(np.isfinite(x)) and np.all(np.isfinite(y))):
        return False
    sc = max(1.0, float(np.max(np.abs(x))), float(np.max(np.abs(y)))) if scale is None else scale
    return bool(np.all(np.abs(x - y) <= rtol * sc))


def show(**kw):
    print("  " + ", ".join("%s=%r" % (k, v) for k, v in kw.items()))


# --------------------------------------------------------------------------------------
# C12

def limiter_clause(vals, limiter, clause):
    import flowdyn.xnum as xnum
    f = getattr(xnum, limiter)
    a, b = num(vals.get("a"), 1.0), num(vals.get("b"), 1.0)
    lam = num(vals.get("lam"), 1.0)
    U = 2.0 ** -53
    r = float(f(a, b))
    show(limiter=limiter, clause=clause, a=a, b=b, lam=lam, result=r)
    p = a * b
    if clause == "finite":
        ok = math.isfinite(r) and abs(r) <= 2 * min(abs(a), abs(b)) * (1 + 4 * U) and abs(r) <= max(abs(a), abs(b)) * (1 + 4 * U)
        # arrays too
        ra = f(np.array([a, -a]), np.array([b, -b]))
        return ok and bool(np.all(np.isfinite(ra)))
    if clause == "opposite-or-zero":
        return not (p <= 0) or r == 0
    if clause == "sign":
        return not (p > 0) or r == 0 or (a > 0 and r > 0) or (a < 0 and r < 0)
    if clause == "bound-2min":
        return not (p > 0) or abs(r) <= 2 * min(abs(a), abs(b)) * (1 + 4 * U)
    if clause == "bound-max":
        return not (p > 0) or abs(r) <= max(abs(a), abs(b)) * (1 + 4 * U)
    if clause == "symmetric":
        return close(r, float(f(b, a)), rtol=1e-15)
    if clause == "odd":
        return close(float(f(-a, -b)), -r, rtol=1e-15)
    if clause == "homogeneous":
        rl = float(f(lam * a, lam * b))
        m = min(abs(a), abs(b), abs(lam * a), abs(lam * b))
        tol = lam * max(abs(a), abs(b)) * (1e-20 / m ** 2 + 8 * U)
        show(rl=rl, lam_r=lam * r, tol=tol)
        return abs(rl - lam * r) <= tol
    if clause == "identity":
        ra = float(f(a, a))
        return abs(ra - a) <= abs(a) * (1e-20 / a ** 2 + 8 * U)
    raise ValueError(clause)
