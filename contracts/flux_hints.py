"""Ghost hints for the HLL-family fluxes (sidecar; nothing here is trusted: every hint is
an obligation against the real code's value, see pyvc/hints.py).

The hints cut the wave-speed estimates (and the Roe average they are built from) so that
the final flux identities are polynomial identities over a few opaque symbols.
"""
import z3
from pyvc import terms as T, arrays as A
from pyvc.hints import Hints, cut, rewrite

SW = "shallowwater.shallowwater1d."
EU = "euler.euler."
E2 = "euler.euler2d."


def _one_of(x, cands):
    return z3.Or(*[x == c for c in cands])


def _store_only(var, save=None):
    """phase hook that only remembers the real value"""
    def hook(H, value, env):
        H.store[(H.phase, save or var)] = {"real": value, "opaque": value}
        return value
    return hook


# --------------------------------------------------------------------------------------
# shallow water

def sw_hll(H, mirror=False, consistency=False):
    if consistency:
        return
    def lower(H_, env, E, x):
        uL, uR, cL, cR = E(env.lookup("uL")), E(env.lookup("uR")), E(env.lookup("cL")), E(env.lookup("cR"))
        c = [z3.RealVal(0), uL - cL, uR - cR]
        return z3.And(cL > 0, cR > 0, *([x <= v for v in c] + [_one_of(x, c)]))

    def upper(H_, env, E, x):
        uL, uR, cL, cR = E(env.lookup("uL")), E(env.lookup("uR")), E(env.lookup("cL")), E(env.lookup("cR"))
        sL = E(env.lookup("sL"))
        c = [z3.RealVal(0), uL + cL, uR + cR]
        return z3.And(x - sL > 0, *([x >= v for v in c] + [_one_of(x, c)]))
    f = SW + "numflux_hll"
    H.add(f, "sL", cut("sL", lower), phase=1)
    H.add(f, "sR", cut("sR", upper), phase=1)
    if mirror:
        H.add(f, "sL", rewrite("sL", lambda H_, env, v: _neg(H_.store[(1, "sR")]["real"]),), phase=2)
        H.add(f, "sL", _replace(lambda H_: _neg(H_.store[(1, "sR")]["opaque"])), phase=2)
        H.add(f, "sR", rewrite("sR", lambda H_, env, v: _neg(H_.store[(1, "sL")]["real"])), phase=2)
        H.add(f, "sR", _replace(lambda H_: _neg(H_.store[(1, "sL")]["opaque"])), phase=2)


def sw_rusanov(H, mirror=False, consistency=False):
    if consistency:
        return
    def facts(H_, env, E, x):
        uL, uR, cL, cR = E(env.lookup("uL")), E(env.lookup("uR")), E(env.lookup("cL")), E(env.lookup("cR"))
        ab = lambda v: z3.If(v >= 0, v, -v)
        return z3.And(x >= ab(uL) + cL, x >= ab(uR) + cR, _one_of(x, [ab(uL) + cL, ab(uR) + cR]), cL > 0, cR > 0)
    f = SW + "numflux_rusanov"
    H.add(f, "cmax", cut("cmax", facts), phase=1)
    if mirror:
        H.add(f, "cmax", rewrite("cmax", lambda H_, env, v: H_.store[(1, "cmax")]["real"]), phase=2)
        H.add(f, "cmax", _replace(lambda H_: H_.store[(1, "cmax")]["opaque"]), phase=2)


def _neg(v):
    return A.elementwise(T.neg, [v], name="neg")


def _replace(fn):
    """after a rewrite was proved against the real phase-1 value, continue with the phase-1
    opaque symbol (real and opaque denote the same value: the opaque one stands for it)"""
    def hook(H, value, env):
        return fn(H)
    return hook


# --------------------------------------------------------------------------------------
# Euler

def _roe_cuts(H, fn, two_d=False, mirror=False):
    def w_facts(H_, env, E, x):
        return z3.And(x > 0, x * x == E(env.lookup("rhoR")) / E(env.lookup("rhoL")))

    def c_facts(H_, env, E, x):
        g = T.treal(env.lookup("self").attrs["gamma"])
        h = E(env.lookup("hRoe"))
        if two_d:
            U = env.lookup("URoe")
            q2 = sum(E(r) * E(r) for r in U.rows)
        else:
            u = E(env.lookup("uRoe"))
            q2 = u * u
        return z3.And(x > 0, x * x == (h - q2 / 2) * (g - 1))
    H.add(fn, "Rrho", cut("Rrho", w_facts), phase=1)
    H.add(fn, "cRoe", cut("cRoe", c_facts), phase=1)
    un = "unRoe" if two_d else "uRoe"
    H.add(fn, un, _store_only(un), phase=1)
    H.add(fn, "hRoe", _store_only("hRoe"), phase=1)
    if two_d:
        H.add(fn, "URoe", _store_only("URoe"), phase=1)
    if mirror:
        one_over = lambda v: A.elementwise(lambda x: T.div(1, x), [v], name="inv")
        H.add(fn, "Rrho", rewrite("Rrho", lambda H_, env, v: one_over(H_.store[(1, "Rrho")]["real"])), phase=2)
        H.add(fn, "Rrho", _replace(lambda H_: one_over(H_.store[(1, "Rrho")]["opaque"])), phase=2)
        H.add(fn, un, rewrite(un, lambda H_, env, v: _neg(H_.store[(1, un)]["real"])), phase=2)
        H.add(fn, "hRoe", rewrite("hRoe", lambda H_, env, v: H_.store[(1, "hRoe")]["real"]), phase=2)
        if two_d:
            H.add(fn, "URoe", rewrite("URoe", lambda H_, env, v: _neg(H_.store[(1, "URoe")]["real"])), phase=2)
        H.add(fn, "cRoe", rewrite("cRoe", lambda H_, env, v: H_.store[(1, "cRoe")]["real"]), phase=2)
        H.add(fn, "cRoe", _replace(lambda H_: H_.store[(1, "cRoe")]["opaque"]), phase=2)


def _einfeldt_cuts(H, fn, mirror=False, with_zero=True):
    def lower(H_, env, E, x):
        c = [E(env.lookup("uRoe")) - E(env.lookup("cRoe")),
             E(env.lookup("unL")) - T.treal(T.sqrt(E(env.lookup("cL2"))))]
        if with_zero:
            c = [z3.RealVal(0)] + c
        return z3.And(*([x <= v for v in c] + [_one_of(x, c)]))

    def upper(H_, env, E, x):
        c = [E(env.lookup("uRoe")) + E(env.lookup("cRoe")),
             E(env.lookup("unR")) + T.treal(T.sqrt(E(env.lookup("cR2"))))]
        if with_zero:
            c = [z3.RealVal(0)] + c
        return z3.And(x - E(env.lookup("sL")) > 0, *([x >= v for v in c] + [_one_of(x, c)]))
    H.add(fn, "sL", cut("sL", lower), phase=1)
    H.add(fn, "sR", cut("sR", upper), phase=1)
    if mirror:
        H.add(fn, "sL", rewrite("sL", lambda H_, env, v: _neg(H_.store[(1, "sR")]["real"])), phase=2)
        H.add(fn, "sL", _replace(lambda H_: _neg(H_.store[(1, "sR")]["opaque"])), phase=2)
        H.add(fn, "sR", rewrite("sR", lambda H_, env, v: _neg(H_.store[(1, "sL")]["real"])), phase=2)
        H.add(fn, "sR", _replace(lambda H_: _neg(H_.store[(1, "sL")]["opaque"])), phase=2)


def _consistency_rewrites(H, roe_fn, flux_fn, two_d=False):
    """equal states: the Roe weight is 1, the Roe average is the state itself"""
    H.add(roe_fn, "Rrho", rewrite("Rrho", lambda H_, env, v: A.full(v.length, 1)), phase=1)
    H.add(flux_fn, "uRoe", rewrite("uRoe", lambda H_, env, v: env.lookup("unL")), phase=1)
    H.add(flux_fn, "cRoe", rewrite("cRoe", lambda H_, env, v: A.elementwise(lambda x: T.sqrt(x), [env.lookup("cL2")])),
          phase=1)


def euler_hlle(H, mirror=False, consistency=False):
    if consistency:
        return _consistency_rewrites(H, EU + "_Roe_average", EU + "numflux_hlle")
    _roe_cuts(H, EU + "_Roe_average", mirror=mirror)
    _einfeldt_cuts(H, EU + "numflux_hlle", mirror=mirror)


def euler_hllc(H, mirror=False, consistency=False):
    if consistency:
        return _consistency_rewrites(H, EU + "_Roe_average", EU + "numflux_hllc")
    _roe_cuts(H, EU + "_Roe_average", mirror=mirror)
    _einfeldt_cuts(H, EU + "numflux_hllc", mirror=mirror, with_zero=False)
    f = EU + "numflux_hllc"

    def sm_facts(H_, env, E, x):
        rL, rR, uL, uR, pL, pR = [E(env.lookup(k)) for k in ("rhoL", "rhoR", "unL", "unR", "pL", "pR")]
        sL, sR = E(env.lookup("sL")), E(env.lookup("sR"))
        a, b = rL * (uL - sL), rR * (sR - uR)          # both positive (subsonic w.r.t. the waves)
        return z3.And(a > 0, b > 0, x * (a + b) == pL - pR + a * uL + b * uR)

    def ps_facts(H_, env, E, x):
        rL, rR, uL, uR, pL, pR = [E(env.lookup(k)) for k in ("rhoL", "rhoR", "unL", "unR", "pL", "pR")]
        sL, sR, sM = E(env.lookup("sL")), E(env.lookup("sR")), E(env.lookup("sM"))
        return z3.And(x == rR * (uR - sR) * (uR - sM) + pR, x == rL * (uL - sL) * (uL - sM) + pL)
    H.add(f, "sM", cut("sM", sm_facts), phase=1)
    H.add(f, "pStar", cut("pStar", ps_facts), phase=1)
    if mirror:
        H.add(f, "sM", rewrite("sM", lambda H_, env, v: _neg(H_.store[(1, "sM")]["real"])), phase=2)
        H.add(f, "sM", _replace(lambda H_: _neg(H_.store[(1, "sM")]["opaque"])), phase=2)
        H.add(f, "pStar", rewrite("pStar", lambda H_, env, v: H_.store[(1, "pStar")]["real"]), phase=2)
        H.add(f, "pStar", _replace(lambda H_: H_.store[(1, "pStar")]["opaque"]), phase=2)


def euler2d_hlle(H, mirror=False, consistency=False):
    if consistency:
        return _consistency_rewrites(H, E2 + "_Roe_average", E2 + "numflux_hlle", two_d=True)
    _roe_cuts(H, E2 + "_Roe_average", two_d=True, mirror=mirror)
    _einfeldt_cuts(H, E2 + "numflux_hlle", mirror=mirror)


def hlle_relational(H, fn1, fn2, mode, utrans=None):
    """two-run hints for the Euler HLLE flux (C15): run 1 through functions fn1 = (roe, flux, two_d) gets the usual cuts,
    run 2 through fn2 is rewritten to run 1: mode 'same' (same normal velocity: transposition, tangential reflection,
    2-D vs 1-D) or 'mirror' (states exchanged and normal velocity negated); utrans maps run 1's URoe to run 2's."""
    roe1, flux1, two1 = fn1
    roe2, flux2, two2 = fn2
    _roe_cuts(H, roe1, two_d=two1, mirror=False)
    _einfeldt_cuts(H, flux1, mirror=False)
    st = lambda var, what: (lambda H_, env=None, v=None: H_.store[(1, var)][what])
    un1 = "unRoe" if two1 else "uRoe"
    un2 = "unRoe" if two2 else "uRoe"
    if mode == "same":
        for fn, var in ((roe2, "Rrho"), (roe2, "cRoe"), (flux2, "sL"), (flux2, "sR")):
            H.add(fn, var, rewrite(var, st(var, "real")), phase=2)
            H.add(fn, var, _replace(st(var, "opaque")), phase=2)
        return
    one_over = lambda v: A.elementwise(lambda x: T.div(1, x), [v], name="inv")
    H.add(roe2, "Rrho", rewrite("Rrho", lambda H_, env, v: one_over(H_.store[(1, "Rrho")]["real"])), phase=2)
    H.add(roe2, "Rrho", _replace(lambda H_: one_over(H_.store[(1, "Rrho")]["opaque"])), phase=2)
    H.add(roe2, un2, rewrite(un2, lambda H_, env, v: _neg(H_.store[(1, un1)]["real"])), phase=2)
    H.add(roe2, "hRoe", rewrite("hRoe", lambda H_, env, v: H_.store[(1, "hRoe")]["real"]), phase=2)
    if two2 and utrans is not None:
        H.add(roe2, "URoe", rewrite("URoe", lambda H_, env, v: utrans(H_.store[(1, "URoe")]["real"])), phase=2)
    H.add(roe2, "cRoe", rewrite("cRoe", st("cRoe", "real")), phase=2)
    H.add(roe2, "cRoe", _replace(st("cRoe", "opaque")), phase=2)
    H.add(flux2, "sL", rewrite("sL", lambda H_, env, v: _neg(H_.store[(1, "sR")]["real"])), phase=2)
    H.add(flux2, "sL", _replace(lambda H_: _neg(H_.store[(1, "sR")]["opaque"])), phase=2)
    H.add(flux2, "sR", rewrite("sR", lambda H_, env, v: _neg(H_.store[(1, "sL")]["real"])), phase=2)
    H.add(flux2, "sR", _replace(lambda H_: _neg(H_.store[(1, "sL")]["opaque"])), phase=2)


def install_relational(interp, fn1, fn2, mode, utrans=None):
    H = Hints()
    hlle_relational(H, fn1, fn2, mode, utrans)
    interp.hints = H
    return H


TABLE = {
    ("shallowwater", "hll"): sw_hll,
    ("shallowwater", "rusanov"): sw_rusanov,
    ("euler1d", "hlle"): euler_hlle, ("nozzle", "hlle"): euler_hlle,
    ("euler1d", "hllc"): euler_hllc, ("nozzle", "hllc"): euler_hllc,
    ("euler2d", "hlle"): euler2d_hlle,
}


def install(interp, kind, name, mirror=False, consistency=False):
    f = TABLE.get((kind, name))
    if f is None:
        interp.hints = None
        return None
    H = Hints()
    f(H, mirror=mirror, consistency=consistency)
    interp.hints = H
    return H
