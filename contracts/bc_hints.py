"""Ghost hints for the characteristic inlet condition (sidecar; every hint is proved against
the real code's value, pyvc/hints.py)."""
import z3
from pyvc import terms as T
from pyvc.hints import Hints, cut

F1 = "euler.euler1d.bc_insub_cbc"


def insub_cbc(H):
    def a_facts(H_, env, E, x):
        g = T.treal(env.lookup("g"))
        gmu = g - 1
        d = T.treal(env.lookup("dir"))
        inv = E(env.lookup("invcm"))
        rt = T.treal(env.lookup("param")["rttot"])
        # a1 is the positive root of the total-enthalpy relation along the outgoing characteristic
        return z3.And(x > 0, x * x * (g + 1) / gmu - 2 * d * inv * x + (gmu / 2 * inv * inv - g * rt) == 0)

    def f_facts(H_, env, E, x):
        g = T.treal(env.lookup("g"))
        gmu = g - 1
        u1, a1 = E(env.lookup("u1")), E(env.lookup("a1"))
        return z3.And(x >= 1, x * a1 * a1 == a1 * a1 + gmu / 2 * u1 * u1)
    H.add(F1, "a1", cut("a1", a_facts), phase=1)
    H.add(F1, "f_m1sqr", cut("f_m1sqr", f_facts), phase=1)


def insub_cbc_mirror(H):
    """two calls (phase 1: original, phase 2: mirrored): staged rewrites of the locals of the second call"""
    from pyvc.hints import rewrite
    from contracts.flux_hints import _store_only

    def neg(v):
        return T.neg(v)
    for var in ("invcm", "adiscri", "a1", "u1", "f_m1sqr"):
        H.add(F1, var, _store_only(var), phase=1)
    H.add(F1, "invcm", rewrite("invcm", lambda H_, env, v: neg(H_.store[(1, "invcm")]["real"])), phase=2)
    H.add(F1, "adiscri", rewrite("adiscri", lambda H_, env, v: H_.store[(1, "adiscri")]["real"]), phase=2)
    H.add(F1, "a1", rewrite("a1", lambda H_, env, v: H_.store[(1, "a1")]["real"]), phase=2)
    H.add(F1, "u1", rewrite("u1", lambda H_, env, v: neg(H_.store[(1, "u1")]["real"])), phase=2)
    H.add(F1, "f_m1sqr", rewrite("f_m1sqr", lambda H_, env, v: H_.store[(1, "f_m1sqr")]["real"]), phase=2)


TABLE = {"insub_cbc": insub_cbc, "insub_cbc/mirror": insub_cbc_mirror}


def install(interp, name):
    f = TABLE.get(name)
    if f is None:
        interp.hints = None
        return None
    H = Hints()
    f(H)
    H.phase = 1
    interp.hints = H
    return H
