"""Contract of `model.numflux` used at call sites (modular verification, DESIGN §2.3).

  requires  admissible left/right face states (rho>0, p>0 / h>0)       [call obligation]
  ensures   the result is POINTWISE: component k at face f is Phi_k(name; pL(.)(f), pR(.)(f)[, n(f)])
            for one function Phi_k (uninterpreted) -- determinism and locality;
            consistency: Phi_k(W, W) = physical flux f_k(W);
            wall: Phi_mass = Phi_energy(depth) = 0 between a state and its 'sym' image.

Each ensures clause is proved against every registered flux body elsewhere: pointwise by the
inspection obligation in C01 ('flux/pointwise'), consistency in C02, wall in C16.
"""
import z3
from pyvc import terms as T, arrays as A
from pyvc.terms import cur
from props import common as C


class FluxContract:
    def __init__(self, kind, info, clauses=("consistency", "wall"), requires=True, opaque=False):
        self.kind = kind
        self.info = info
        self.clauses = clauses
        self.requires = requires
        self.opaque = opaque     # opaque: the result arrays are fresh symbols; instances of the ensures
        self.calls = 0           # clauses are added on demand (instance_* methods) -- keeps queries small
        self.last = None

    def phi(self, name, k, nargs):
        nm = "Phi_%s_%s_%d" % (self.kind, name or "default", k)
        return z3.Function(nm, *([z3.RealSort()] * (nargs + 1)))

    def model_params(self, model):
        """the physical parameters of the model object the flux is called on (arguments of Phi)"""
        if self.kind == "convection":
            return [T.treal(model.attrs["convcoef"])]
        if self.kind == "shallowwater":
            return [T.treal(model.attrs["g"])]
        if self.kind == "burgers":
            return []
        return [T.treal(model.attrs["gamma"])]

    def apply(self, interp, f, bound):
        kind = self.kind
        name = bound.get("name")
        pL = bound.get("pdataL", bound.get("pL"))
        pR = bound.get("pdataR", bound.get("pR"))
        dirv = bound.get("dir")
        self.calls += 1
        if name is None and kind in ("euler1d", "nozzle", "euler2d"):
            name = "hllc"
        if name is None and kind == "shallowwater":
            name = "rusanov"
        if kind not in ("convection", "burgers"):
            reg = bound["self"].attrs["_numfluxdict"].attrs["dict"]
            if name not in reg:
                from pyvc.interp import PyException
                raise PyException(interp.make_exc("KeyError", name))
        n = pL[0].length
        # requires: admissible face states, at a fresh face index
        s = cur()
        if self.requires and not T._safety_off[0]:
            j = s.fresh("fj", "Int")
            inr = z3.And(j >= 0, j < T.tz(n))
            s.pc.append(inr)
            try:
                for side, P in (("L", pL), ("R", pR)):
                    W = C.flat_at(P, j)
                    if kind == "shallowwater":
                        T.oblige_safety("numflux:requires-depth-positive-" + side, W[0] > 0)
                    elif kind in ("euler1d", "nozzle"):
                        T.oblige_safety("numflux:requires-admissible-" + side, z3.And(W[0] > 0, W[2] > 0))
                    elif kind == "euler2d":
                        T.oblige_safety("numflux:requires-admissible-" + side, z3.And(W[0] > 0, W[3] > 0))
            finally:
                s.pc.pop()
        ncomp = len(C.comp_names(kind))
        snapL = [_snap(p) for p in pL]
        snapR = [_snap(p) for p in pR]
        snapD = _snap(dirv) if dirv is not None else None
        info = self.info
        clauses = self.clauses

        def args_at(fidx):
            a = _flat(snapL, fidx) + _flat(snapR, fidx)
            if snapD is not None:
                a += _flat([snapD], fidx)
            return a

        mp = self.model_params(bound["self"])
        mirror_now = getattr(self, "mirror_now", False)
        par = C.parity(kind)

        def comp(k):
            def fn(fidx):
                a = args_at(fidx)
                Phi = self.phi(name, k, len(a) + len(mp))
                val = Phi(*(mp + a))
                m = len(a) // 2 if snapD is None else (len(a) - 2) // 2
                if "mirror" in clauses and mirror_now and snapD is None:
                    # instance of the mirror clause (C02): Phi_k(M W_R, M W_L; a -> -a) = sigma_k Phi_k(W_L, W_R)
                    def Mst(W):
                        W = list(W)
                        if kind == "burgers":
                            return [-W[0]]
                        if kind == "convection":
                            return W
                        W[1] = -W[1]
                        return W
                    mpm = [-mp[0]] if kind == "convection" else mp
                    valm = Phi(*(mpm + Mst(a[m:2 * m]) + Mst(a[:m])))
                    cur().add_fact(val == par[k] * valm, trigger=val)
                WL, WR = a[:m], a[m:2 * m]
                nrm = tuple(a[2 * m:]) if snapD is not None else None
                ses = cur()
                if "consistency" in clauses:
                    phys = C.physical_flux(kind, WL, info, nrm)
                    ses.add_fact(z3.Implies(z3.And(*[x == y for x, y in zip(WL, WR)]), val == phys[k]), trigger=val)
                if "wall" in clauses and kind != "convection" and kind != "burgers" and k in (0, ncomp - 1) \
                        and not (kind == "shallowwater" and k == ncomp - 1):
                    if kind == "euler2d":
                        r, ux, uy, p = WL
                        un = ux * nrm[0] + uy * nrm[1]
                        img = [r, ux - 2 * un * nrm[0], uy - 2 * un * nrm[1], p]
                    else:
                        img = list(WL)
                        img[1] = -WL[1]
                    ses.add_fact(z3.Implies(z3.And(*[x == y for x, y in zip(WR, img)]), val == 0), trigger=val)
                return val
            return A.SymArray(n, fn, name="F%d" % k)
        if self.opaque:
            G = [A.input_array("G%d" % k, n) for k in range(ncomp)]
            self.last = {"G": G, "args_at": args_at, "m": None, "name": name, "has_dir": snapD is not None, "n": n,
                         "params": self.model_params(bound["self"])}
            if kind == "euler2d":
                return [G[0], A.Sym2D([G[1], G[2]]), G[3]]
            return list(G)
        out = []
        if kind == "euler2d":
            out = [comp(0), A.Sym2D([comp(1), comp(2)]), comp(3)]
        else:
            out = [comp(k) for k in range(ncomp)]
        return out

    # -- on-demand instances of the ensures clauses (opaque mode) ---------------------------------
    def _split(self, a):
        hd = self.last["has_dir"]
        m = (len(a) - 2) // 2 if hd else len(a) // 2
        return a[:m], a[m:2 * m], (tuple(a[2 * m:]) if hd else None)

    def instance_equal_faces(self, f1, f2):
        """pointwise: G_k(f) = Phi_k(args(f)) at f1 and f2, hence equal arguments give equal fluxes"""
        a1, a2 = self.last["args_at"](f1), self.last["args_at"](f2)
        same = z3.And(*[x == y for x, y in zip(a1, a2)])
        for g in self.last["G"]:
            g1 = T.treal(g.at(f1))
            cur().add_fact(z3.Implies(same, g1 == T.treal(g.at(f2))), trigger=g1)
        return same

    def instance_consistency(self, f, at_state=None):
        """consistency at face f; with `at_state` = W the instance reads: both face states equal W
        implies G_k(f) = f_k(W) (same clause, the physical flux written on the given state terms)"""
        WL, WR, nrm = self._split(self.last["args_at"](f))
        if at_state is not None:
            W = list(at_state)
            phys = C.physical_flux(self.kind, W, self.info, nrm)
            same = z3.And(*([x == w for x, w in zip(WL, W)] + [y == w for y, w in zip(WR, W)]))
            for k, g in enumerate(self.last["G"]):
                gf = T.treal(g.at(f))
                cur().add_fact(z3.Implies(same, gf == phys[k]), trigger=gf)
            return same
        phys = C.physical_flux(self.kind, WL, self.info, nrm)
        same = z3.And(*[x == y for x, y in zip(WL, WR)])
        for k, g in enumerate(self.last["G"]):
            gf = T.treal(g.at(f))
            cur().add_fact(z3.Implies(same, gf == phys[k]), trigger=gf)
        return same

    def instance_mirror(self, rec1, rec2, f2, f1):
        """mirror clause (C02) + pointwise: if the states of call 2 at face f2 are the mirror image (swapped, velocities
        negated; convection speed negated) of the states of call 1 at face f1, then G2_k(f2) = sigma_k G1_k(f1)"""
        kind = self.kind
        a1, a2 = rec1["args_at"](f1), rec2["args_at"](f2)
        m = len(a1) // 2

        def Mst(W):
            W = list(W)
            if kind == "burgers":
                return [-W[0]]
            if kind == "convection":
                return W
            W[1] = -W[1]
            return W
        want = Mst(a1[m:2 * m]) + Mst(a1[:m])
        rel = [x == y for x, y in zip(a2, want)]
        p1, p2 = rec1["params"], rec2["params"]
        rel += [(y == -x) if kind == "convection" else (y == x) for x, y in zip(p1, p2)]
        rel = z3.And(*rel) if rel else z3.BoolVal(True)
        par = C.parity(kind)
        for k, (g1, g2) in enumerate(zip(rec1["G"], rec2["G"])):
            gf = T.treal(g2.at(f2))
            cur().add_fact(z3.Implies(rel, gf == par[k] * T.treal(g1.at(f1))), trigger=gf)
        return rel

    def instance_wall(self, f, interior="L"):
        """no mass / energy flux between a state and its 'sym' image (interior state on side `interior`)"""
        WL, WR, nrm = self._split(self.last["args_at"](f))
        Win, Wout = (WL, WR) if interior == "L" else (WR, WL)
        if self.kind == "euler2d":
            r, ux, uy, p = Win
            un = ux * nrm[0] + uy * nrm[1]
            img = [r, ux - 2 * un * nrm[0], uy - 2 * un * nrm[1], p]
        else:
            img = list(Win)
            img[1] = -Win[1]
        rel = z3.And(*[x == y for x, y in zip(Wout, img)])
        G = self.last["G"]
        ks = [0] if self.kind == "shallowwater" else [0, len(G) - 1]
        for k in ks:
            gf = T.treal(G[k].at(f))
            cur().add_fact(z3.Implies(rel, gf == 0), trigger=gf)
        return rel


def _snap(p):
    if isinstance(p, A.Sym2D):
        return [r._snapshot_at() for r in p.rows]
    if isinstance(p, A.SymArray):
        p._check_base()
        return p._snapshot_at()
    return p


def _flat(snaps, i):
    out = []
    for s in snaps:
        if isinstance(s, list):
            out.extend(T.treal(f(i)) for f in s)
        elif callable(s):
            out.append(T.treal(s(i)))
        else:
            out.append(T.treal(s))
    return out


QUALNAMES = {
    "convection": "flowdyn.modelphy.convection::model.numflux",
    "burgers": "flowdyn.modelphy.burgers::model.numflux",
    "shallowwater": "flowdyn.modelphy.shallowwater::shallowwater1d.numflux",
    "euler1d": "flowdyn.modelphy.euler::euler.numflux",
    "nozzle": "flowdyn.modelphy.euler::euler.numflux",
    "euler2d": "flowdyn.modelphy.euler::euler.numflux",
}


class use_flux_contract:
    """context: calls of model.numflux go through the contract instead of the body"""

    def __init__(self, interp, kind, info, clauses=("consistency", "wall"), requires=True, opaque=False):
        self.interp = interp
        self.qn = QUALNAMES[kind]
        self.c = FluxContract(kind, info, clauses, requires, opaque)

    def __enter__(self):
        self.old = self.interp.contracts.get(self.qn)
        self.was = self.qn in self.interp.active_contracts
        self.interp.contracts[self.qn] = self.c
        self.interp.active_contracts.add(self.qn)
        return self.c

    def __exit__(self, *a):
        if self.old is None:
            self.interp.contracts.pop(self.qn, None)
        else:
            self.interp.contracts[self.qn] = self.old
        if not self.was:
            self.interp.active_contracts.discard(self.qn)
