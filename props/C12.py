"""C12 — slope limiters lie in the second-order TVD region (DESIGN §6 C12).

Contracts are stated on the real functions of flowdyn/xnum.py, enumerated from the
module's ``__all__`` (module-level functions of two arguments).  Each function is executed
symbolically on scalar reals (numpy's scalar semantics) and on arrays (pointwise lift).
"""
import z3
from fractions import Fraction
from pyvc import terms as T, arrays as A
from pyvc.framework import prove, canary, assume, watch, prove_with_hints
from pyvc.interp import PyFunc
from .common import *

EPS = Fraction(1, 10 ** 20)
LOW = Fraction(1, 10 ** 8)
BOX_LO = Fraction(1, 10 ** 150)
BOX_HI = Fraction(10 ** 150)


# sidecar ghost: regulariser-free homogeneous reference of the smooth limiters (hint only:
# a reference that does not fit never yields a violation, see prove_with_hints)
def _ref_vanalbada(a, b):
    return z3.If(a * b > 0, a * b * (a + b) / (a * a + b * b), 0)


def _ref_vanleer(a, b):
    return z3.If(a * b > 0, 2 * a * b / (a + b), 0)


REFERENCE = {"vanalbada": _ref_vanalbada, "vanleer": _ref_vanleer}


def _samples():
    out = []
    mags = [1e-8, 3e-8, 1e-6, 1e-4, 1e-2, 0.5, 1.0, 3.0, 1e2, 1e4, 1e8, 1e12]
    k = 0
    for x in mags:
        for ratio in (1.0, 1.5, 7.0, 1e3, 1e-3):
            for sg in (1, -1):
                for lam in (0.5, 2.0, 1e3, 1e-3, 3.0):
                    a, b = sg * x, sg * x * ratio
                    if min(abs(a), abs(b), abs(lam * a), abs(lam * b)) >= 1e-8:
                        out.append({"a": repr(a), "b": repr(b), "lam": repr(lam)})
    return out


SAMPLES = _samples()


def limiters(chk):
    m = chk.interp.load("flowdyn.xnum")
    out = []
    for nm in m.env.vars.get("__all__", []):
        f = m.env.vars.get(nm)
        if isinstance(f, PyFunc) and f.defclass is None and len(f.node.args.args) == 2:
            out.append((nm, f))
    return out


def contract_clauses(a, b, r):
    """the statement's clauses for r = phi(a,b), as z3 formulas (name, formula)"""
    p = a * b
    return [
        ("opposite-or-zero", z3.Implies(p <= 0, r == 0)),
        ("sign", z3.Implies(p > 0, z3.Or(r == 0, z3.And(a > 0, r > 0), z3.And(a < 0, r < 0)))),
        ("bound-2min", z3.Implies(p > 0, zabs(r) <= 2 * zmin(zabs(a), zabs(b)))),
        ("bound-max", z3.Implies(p > 0, zabs(r) <= zmax(zabs(a), zabs(b)))),
    ]


def build(chk):
    it = chk.interp
    lims = limiters(chk)
    chk.configs = [nm for nm, _ in lims]
    if not lims:
        chk.engine_errors.append("no limiter found in flowdyn.xnum.__all__")
    chk.assumptions += [
        "machine arithmetic treated as mathematical (real) arithmetic, except the explicit range obligation "
        "'range/*' which bounds every intermediate by the largest double on the box 1e-150<=|a|,|b|<=1e150",
        "approximate clauses (homogeneous, identity) carry the statement's relative tolerance 1e-20/a^2 plus 4 "
        "unit round-offs (DESIGN §6 C12)",
    ]
    for nm, f in lims:
        rp = {"fn": "limiter_clause", "args": {"limiter": nm}}

        def scalar(nm=nm, f=f, rp=rp):
            a, b = z3.Real("a"), z3.Real("b")
            watch("a", a)
            watch("b", b)
            r = T.treal(it.call(f, [a, b], {}))
            for cn, cl in contract_clauses(a, b, r):
                prove(cn, cl, replay=dict(rp, args=dict(rp["args"], clause=cn)))
            r2 = T.treal(it.call(f, [b, a], {}))
            prove("symmetric", r == r2, replay=dict(rp, args=dict(rp["args"], clause="symmetric")))
            r3 = T.treal(it.call(f, [-a, -b], {}))
            prove("odd", r3 == -r, replay=dict(rp, args=dict(rp["args"], clause="odd")))
            # vacuity guard
            canary("canary-nonzero", z3.Implies(a * b > 0, r == 0))
        chk.run("%s/scalar" % nm, scalar)

        def approx(nm=nm, f=f, rp=rp):
            a, b, lam = z3.Real("a"), z3.Real("b"), z3.Real("lam")
            watch("a", a)
            watch("b", b)
            watch("lam", lam)
            assume(z3.And(zabs(a) >= T.tz(LOW), zabs(b) >= T.tz(LOW), lam > 0,
                          zabs(lam * a) >= T.tz(LOW), zabs(lam * b) >= T.tz(LOW)))
            r = T.treal(it.call(f, [a, b], {}))
            rl = T.treal(it.call(f, [lam * a, lam * b], {}))
            m = zmin(zmin(zabs(a), zabs(b)), zmin(zabs(lam * a), zabs(lam * b)))
            M = zmax(zabs(a), zabs(b))
            tol = lam * M * (T.tz(EPS) / (m * m) + 4 * T.tz(U))
            goal = zabs(rl - lam * r) <= tol
            ra = T.treal(it.call(f, [a, a], {}))
            goal_id = zabs(ra - a) <= zabs(a) * (T.tz(EPS) / (a * a) + 4 * T.tz(U))
            rp_h = dict(rp, args=dict(rp["args"], clause="homogeneous"))
            rp_i = dict(rp, args=dict(rp["args"], clause="identity"))
            ref = REFERENCE.get(nm)
            if ref is None:
                prove("homogeneous", goal, replay=rp_h, samples=SAMPLES)
                prove("identity", goal_id, replay=rp_i, samples=SAMPLES)
            else:
                # ghost: regulariser-free homogeneous reference h (sidecar), opaque in the composition
                r_, rl_, ra_, H1, H2, Ha = [z3.Real(x) for x in ("r_", "rl_", "ra_", "H1", "H2", "Ha")]
                dev = lambda x, y: T.tz(EPS) / (2 * zmin(zabs(x), zabs(y)) * zmin(zabs(x), zabs(y))) + 2 * T.tz(U)
                hints = [("reference-homogeneous", H2 == lam * H1),
                         ("reference-bounded", zabs(H1) <= M),
                         ("deviation", zabs(r_ - H1) <= zabs(H1) * dev(a, b)),
                         ("deviation-scaled", zabs(rl_ - H2) <= zabs(H2) * dev(lam * a, lam * b))]
                bind = {r_: r, rl_: rl, H1: ref(a, b), H2: ref(lam * a, lam * b)}
                m_ = z3.Real("m_")
                assume(z3.And(m_ > 0, m_ <= zabs(a), m_ <= zabs(b), m_ <= zabs(lam * a), m_ <= zabs(lam * b)))
                prove_with_hints("homogeneous", zabs(rl_ - lam * r_) <= lam * M * (T.tz(EPS) / (m_ * m_) + 4 * T.tz(U)),
                                 hints, bind, replay=rp_h, samples=SAMPLES)
                hints2 = [("reference-identity", Ha == a),
                          ("deviation-identity", zabs(ra_ - Ha) <= zabs(Ha) * dev(a, a))]
                prove_with_hints("identity", zabs(ra_ - a) <= zabs(a) * (T.tz(EPS) / (a * a) + 4 * T.tz(U)),
                                 hints2, {ra_: ra, Ha: ref(a, a)}, replay=rp_i, samples=SAMPLES)
        chk.run("%s/approx" % nm, approx)

        def rng(nm=nm, f=f, rp=rp):
            a, b = z3.Real("a"), z3.Real("b")
            watch("a", a)
            watch("b", b)
            assume(z3.And(zabs(a) >= T.tz(BOX_LO), zabs(a) <= T.tz(BOX_HI),
                          zabs(b) >= T.tz(BOX_LO), zabs(b) <= T.tz(BOX_HI)))
            r = T.treal(it.call(f, [a, b], {}))
            from pyvc.rangecheck import relevant_intermediates
            k = 0
            for t, relv in relevant_intermediates(r):
                prove("intermediate#%d" % k, z3.Implies(relv, zabs(T.treal(t)) <= T.tz(DBL_MAX)),
                      replay=dict(rp, args=dict(rp["args"], clause="finite")),
                      strong_neg=z3.And(relv, zabs(T.treal(t)) >= 4 * T.tz(DBL_MAX)))
                k += 1
            if k == 0:
                raise T.EngineError("no arithmetic intermediate found for " + nm)
        chk.run("%s/range" % nm, rng)

        def lifted(nm=nm, f=f):
            n = z3.Int("n")
            assume(n >= 1)
            a, b = z3.Real("a"), z3.Real("b")
            rs = T.treal(it.call(f, [a, b], {}))
            Aa = A.input_array("A", n)
            Bb = A.input_array("B", n)
            R = it.call(f, [Aa, Bb], {})
            if not isinstance(R, A.SymArray):
                raise T.EngineError("limiter did not return an array for array arguments")
            i = z3.Int("i")
            assume(z3.And(i >= 0, i < n))
            prove("elementwise/length", T.eq(R.length, n))
            want = z3.substitute(rs, (a, Aa.at(i)), (b, Bb.at(i)))
            prove("elementwise/value", T.treal(R.at(i)) == want)
        chk.run("%s/array" % nm, lifted)
