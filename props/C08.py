"""C08 — solve is pure: repeatable, unaffected by saving, monitoring or restart.

Frames (ghost attribute logs recorded while the real code is executed symbolically):
  R_step  solver attributes an integrator's step reads before writing them (its dependence on
          solver state),   W_step  what it writes,
  W_pro   what solve()/_solve's prologue (re)initialise,   W_side what a snapshot sub-step writes
          on the trajectory solver,   W_mon  what the monitors write.
(a) state independence:   every mutable attribute in R_step is re-initialised by solve()
(b) observer independence: (W_side u W_mon) does not meet the carried part of R_step, and neither
    touches the trajectory state Qn
(c) restart: the prologue of restart() continues the cumulative count from the field's `it`;
    with C07 (every returned state is tagged with its iteration) restart(solve(N)) == solve(N+M)
(d) monitors append exactly when totnit() % frequency == 0, with (totnit(), _time, value(Qn)).
"""
import ast
import z3
from pyvc import terms as T, arrays as A
from pyvc.framework import prove, canary, assume, watch, lemma, lazy_safety
from pyvc.interp import PyObj, UserFunc, PyException
from .common import *
from .intcommon import integrator_classes, make_setup, AbstractRHS
from .driver import *

CONFIG = {"mesh", "modeldisc", "monitors", "_monitordict", "_butcher", "_beta", "nstage", "_subtimecoef"}
# carried state that is sound over the reals: the Jacobian cache of linear models (the operator does not depend on the
# field: C06 'calc_jacobian/jacobian-is-the-operator' holds for every field)
SOUND_CACHE = {"jacobian_use", "jacobian", "neq", "dim"}


def step_frames(chk, nm, cls, implicit, islinear=0):
    """(R_step, W_step) of two consecutive steps of integrator `cls` on the solver object"""
    it = chk.interp
    if implicit:
        from .C06 import LinearRHS, list_array, vec
        rhs = LinearRHS(1, 2)
        S = make_setup(chk, cls, neq=1, n=2, rhs=rhs, islinear=islinear)
        arr, xs = vec("Q0", 2)
        S["field"].attrs["data"][0] = arr
    else:
        S = make_setup(chk, cls, neq=1)
    dt = z3.Real("dt")
    assume(dt > 0)
    slv = S["solver"]
    R, W = [], []
    for k in range(2):
        log = {id(slv): {"obj": slv, "read": [], "write": []}}
        it.attr_log = log
        try:
            with lazy_safety():
                it.call(it.getattr(slv, "step"), [S["field"], dt], {})
        finally:
            it.attr_log = None
        ent = log[id(slv)]
        R += [a for a in ent["read"] if a not in R]
        W += [a for a in ent["write"] if a not in W]
    meths = set()
    for c in slv.cls.mro():
        meths |= {k for k, v in c.attrs.items() if not isinstance(v, (int, float, str, list, dict, tuple)) or k.startswith("__")}
    R = [a for a in R if a not in meths or a in slv.attrs]
    return R, W


def snapshot_writes(chk, frag, cls, implicit, islinear):
    """attributes of the TRAJECTORY solver written while the real snapshot code (one generic iteration of the
    save loop) runs with the real step of integrator `cls` -- dynamic frame, whatever object the code calls step on"""
    it = chk.interp
    if implicit:
        from .C06 import LinearRHS, vec
        rhs = LinearRHS(1, 2)
        S = make_setup(chk, cls, neq=1, n=2, rhs=rhs, islinear=islinear)
        arr, xs = vec("Qn0", 2)
        S["field"].attrs["data"][0] = arr
        assume(sum(zabs(x) for x in xs) > 0)
    else:
        S = make_setup(chk, cls, neq=1)
    slv, Qn = S["solver"], S["field"]
    t = T.treal(Qn.attrs["time"])
    slv.attrs.update({"Qn": Qn, "_nit": z3.Int("nit"), "_itstart": z3.Int("it0"), "_time": t})
    nsave, isave = z3.Int("nsave"), z3.Int("isave")
    assume(z3.And(isave >= 0, isave < nsave))
    tsave = monotone_array("tsave", nsave)
    assume(T.treal(tsave.at(isave)) > t)
    results = it.call(get(chk, "flowdyn.field", "fieldlist"), [], {})
    env = frag_env(frag, {"self": slv, "condition": z3.Real("cfl"), "tsave": tsave, "flush": None, "monitors": {},
                          "directives": {}, "verbose": False, "dtlocal": False, "stopcrit": {"maxit": z3.Int("maxit")},
                          "results": results, "isave": isave, "nsave": nsave, "checkend": False, "start": 0,
                          "mindtloc": z3.Real("mindt")})
    if frag["inner_index"] is None:
        raise T.EngineError("saving logic is not a loop: frames of the snapshot step not identified")
    inner = frag["main"].body[frag["inner_index"]]
    log = {id(slv): {"obj": slv, "read": [], "write": []}}
    it.attr_log = log
    try:
        with lazy_safety():
            exec_fragment(chk, frag, inner.body, env)
    finally:
        it.attr_log = None
    untouched = slv.attrs["Qn"] is Qn
    return list(log[id(slv)]["write"]), untouched


def stale_after_solve(chk, frag, nm, attrs):
    """plant stale values for `attrs` on a solver of class `nm`, run the real solve() up to the main loop,
    return the attributes whose stale value is still there"""
    it = chk.interp
    it.while_handler = skip_loop_handler(frag)
    D = make_driver(chk, integrator=nm)
    slv = D["solver"]
    f = new_field(chk, D, "F", z3.Real("t_start"))
    nsave = z3.Int("nsave")
    assume(nsave >= 1)
    tsave = monotone_array("tsave", nsave)
    markers = {}
    for a in attrs:
        markers[a] = object()
        slv.attrs[a] = markers[a]

    class ProOnly:
        def apply(self_, interp, fn, bound):
            env = frag_env(frag, {k: v for k, v in bound.items()})
            exec_fragment(chk, frag, frag["pre"], env)
            return None
    qn = "flowdyn.integration::timemodel._solve"
    it.contracts[qn] = ProOnly()
    it.active_contracts.add(qn)
    try:
        it.call(it.getattr(slv, "solve"), [f, z3.Real("cfl"), tsave], {"monitors": {}})
    finally:
        it.active_contracts.discard(qn)
    return [a for a in attrs if slv.attrs.get(a) is markers[a]]


def _build_own(chk):
    it = chk.interp
    chk.assumptions += [
        "over the reals: 'bit-identical' additionally assumes that numpy/BLAS are deterministic on one machine (DESIGN §5.6)",
        "step, calc_timestep, rhs, averages through abstract contracts (deterministic functions of their arguments)",
        "the Jacobian cache of linear models is carried state that is sound: the operator does not depend on the field (C06)",
    ]
    frag = solve_fragments(chk)
    mod = it.load("flowdyn.integration")
    classes = [(nm, cls, imp) for nm, cls, imp, conc in integrator_classes(chk) if conc]
    chk.configs = [nm for nm, _, _ in classes]

    # ---- frames of the prologue (solve + _solve before the loop) and of the loop's bookkeeping ------------
    frames = {}

    def prologue_frames():
        it.while_handler = skip_loop_handler(frag)
        for entry in ("solve", "restart"):
            D = make_driver(chk)
            slv = D["solver"]
            f = new_field(chk, D, "F", z3.Real("t_start"))
            f.attrs["it"] = z3.Int("f_it")
            nsave = z3.Int("nsave")
            assume(nsave >= 1)
            tsave = monotone_array("tsave", nsave)
            # run the entry method with _solve cut after its prologue: a contract that executes the prologue only
            log = {id(slv): {"obj": slv, "read": [], "write": []}}
            got = {}

            class ProOnly:
                def apply(self_, interp, fn, bound):
                    env = frag_env(frag, {k: v for k, v in bound.items()})
                    exec_fragment(chk, frag, frag["pre"], env)
                    got["env"] = env
                    return None
            qn = "flowdyn.integration::timemodel._solve"
            it.contracts[qn] = ProOnly()
            it.active_contracts.add(qn)
            it.attr_log = log
            try:
                it.call(it.getattr(slv, entry), [f, z3.Real("cfl"), tsave], {"monitors": {}})
            finally:
                it.attr_log = None
                it.active_contracts.discard(qn)
            frames["W_" + entry] = list(log[id(slv)]["write"])
            if entry == "restart":
                fi = f.attrs["it"]
                prove("restart/continues-the-cumulative-count",
                      T.eq(slv.attrs["_itstart"], z3.If(fi >= 0, fi, 0)) if True else False,
                      replay={"fn": "purity_clause", "args": {"clause": "restart"}})
                prove("restart/resets-the-local-count", T.eq(slv.attrs["_nit"], 0))
                Qn = slv.attrs["Qn"]
                i = z3.Int("i")
                assume(z3.And(i >= 0, i < D["n"]))
                prove("restart/starts-from-the-given-state",
                      z3.And(T.treal(Qn.attrs["time"]) == T.treal(f.attrs["time"]),
                             *[T.treal(a.at(i)) == T.treal(b.at(i)) for a, b in zip(Qn.attrs["data"], f.attrs["data"])]))
            else:
                prove("solve/resets-the-counters", T.band(T.eq(slv.attrs["_itstart"], 0), T.eq(slv.attrs["_nit"], 0)))
    chk.run("frames/prologue", prologue_frames)

    # ---- frame of a snapshot sub-step on the trajectory solver ------------------------------------------------
    def side_frames():
        D = make_driver(chk)
        slv = D["solver"]
        t = z3.Real("t")
        Qn = new_field(chk, D, "Qn", t)
        slv.attrs.update({"Qn": Qn, "_nit": z3.Int("nit"), "_itstart": z3.Int("it0"), "_time": t})
        nsave, isave = z3.Int("nsave"), z3.Int("isave")
        assume(z3.And(isave >= 0, isave < nsave))
        tsave = monotone_array("tsave", nsave)
        assume(T.treal(tsave.at(isave)) > t)
        results = it.call(get(chk, "flowdyn.field", "fieldlist"), [], {})
        # which object's step is called for the snapshot?  (the trajectory solver or a copy of it)
        callee = []
        orig = slv.attrs["step"]

        def spy(field, dt):
            callee.append(field)
            return orig.call(it, [field, dt], {})
        slv.attrs["step"] = UserFunc("step", spy)
        env = frag_env(frag, {"self": slv, "condition": z3.Real("cfl"), "tsave": tsave, "flush": None, "monitors": {},
                              "directives": {}, "verbose": False, "dtlocal": False, "stopcrit": {"maxit": z3.Int("maxit")},
                              "results": results, "isave": isave, "nsave": nsave, "checkend": False, "start": 0,
                              "mindtloc": z3.Real("mindt"), "dtloc": D["dtarr"]})
        assume(T.treal(env.vars["mindtloc"]) > 0)
        main = frag["main"]
        if frag["inner_index"] is None:
            raise T.EngineError("saving logic is not a loop: frames of the snapshot step not identified")
        inner = main.body[frag["inner_index"]]
        log = {id(slv): {"obj": slv, "read": [], "write": []}}
        it.attr_log = log
        try:
            exec_fragment(chk, frag, inner.body, env)
        finally:
            it.attr_log = None
        # the attributes of the trajectory solver that the sub-step can write: if the step is invoked on the solver itself,
        # everything W_step writes; if on a copy, only what the loop body assigns directly
        on_self = True
        for st in ast.walk(inner):
            if isinstance(st, ast.Call) and isinstance(st.func, ast.Attribute) and st.func.attr == "step":
                on_self = isinstance(st.func.value, ast.Name) and st.func.value.id == "self"
        frames["side_on_self"] = on_self
        frames["W_side_direct"] = list(log[id(slv)]["write"])
        prove("snapshot/trajectory-state-untouched", slv.attrs["Qn"] is Qn and Qn.attrs["time"] is t,
              replay={"fn": "purity_clause", "args": {"clause": "observer"}})
    chk.run("frames/snapshot-step", side_frames)

    # ---- monitors ------------------------------------------------------------------------------------------------
    for mtype in ("residual", "data_average"):
        def mon(mtype=mtype):
            D = make_driver(chk)
            slv = D["solver"]
            t = z3.Real("t")
            Qn = new_field(chk, D, "Qn", t)
            nit, it0, freq = z3.Int("nit"), z3.Int("it0"), z3.Int("freq")
            assume(z3.And(nit >= 0, it0 >= 0, freq >= 1))
            slv.attrs.update({"Qn": Qn, "_nit": nit, "_itstart": it0, "_time": t})
            calls = {"rhs": [], "avg": [], "l2": []}
            val = z3.Real("value")

            def rhs(f):
                calls["rhs"].append(f)
                return [A.input_array("Rm", D["n"])]
            D["disc"].attrs["rhs"] = UserFunc("rhs", rhs)
            D["disc"].attrs["all_L2average"] = UserFunc("all_L2average", lambda r: (calls["l2"].append(r), val)[1])
            Qn.attrs["average"] = UserFunc("average", lambda name: (calls["avg"].append(name), val)[1])
            params = {"type": mtype, "frequency": freq, "data": "q"}
            log = {id(slv): {"obj": slv, "read": [], "write": []}}
            old = (Qn.attrs["time"], list(Qn.attrs["data"]))
            it.attr_log = log
            try:
                it.call(it.getattr(slv, "_parse_monitors"), [{"m": params}], {})
            finally:
                it.attr_log = None
            frames.setdefault("W_mon", [])
            frames["W_mon"] += [a for a in log[id(slv)]["write"] if a not in frames["W_mon"]]
            out = params.get("output")
            hit = (it0 + nit) % freq == 0
            ses = T.cur()
            taken = z3.And(*ses.pc) if ses.pc else z3.BoolVal(True)
            rp = {"fn": "purity_clause", "args": {"clause": "monitor"}}
            if out is None:
                prove("monitor/%s/silent-only-off-frequency" % mtype, z3.Not(hit), replay=rp)
            else:
                prove("monitor/%s/records-only-on-frequency" % mtype, hit, replay=rp)
                its, tms, vls = out.attrs["_it"], out.attrs["_time"], out.attrs["_value"]
                prove("monitor/%s/one-entry" % mtype, len(its) == 1 and len(tms) == 1 and len(vls) == 1, replay=rp)
                if len(its) == 1:
                    prove("monitor/%s/iteration-time-value" % mtype,
                          z3.And(T.tz(its[0]) == it0 + nit, T.treal(tms[0]) == t, T.treal(vls[0]) == val), replay=rp)
                if mtype == "residual":
                    prove("monitor/residual/evaluated-on-the-trajectory-state", len(calls["rhs"]) == 1 and calls["rhs"][0] is Qn, replay=rp)
                else:
                    prove("monitor/data_average/evaluated-on-the-trajectory-state", calls["avg"] == ["q"], replay=rp)
            prove("monitor/%s/trajectory-state-untouched" % mtype,
                  slv.attrs["Qn"] is Qn and Qn.attrs["time"] is old[0] and all(a is b for a, b in zip(Qn.attrs["data"], old[1])), replay=rp)
        chk.run("monitors/%s" % mtype, mon)

    # ---- per integrator: dependence of step on solver state ---------------------------------------------------------
    for nm, cls, implicit in classes:
        for islinear in ((0, 1) if implicit else (0,)):
            rp = {"fn": "purity_clause", "args": {"clause": "repeat", "integrator": nm}}

            def pur(nm=nm, cls=cls, implicit=implicit, islinear=islinear, rp=rp):
                R, W = step_frames(chk, nm, cls, implicit, islinear)
                carried = [a for a in R if a not in CONFIG and a in W]
                T.cur().notes.append("%s (islinear=%d): step reads %s, writes %s, carries %s" % (nm, islinear, R, W, carried))
                stale = stale_after_solve(chk, frag, nm, [a for a in carried if not (a in SOUND_CACHE and islinear == 1)])
                wside, untouched = snapshot_writes(chk, frag, cls, implicit, islinear)
                T.cur().notes.append("%s: a snapshot sub-step writes %s on the trajectory solver" % (nm, wside))
                prove("observer-independence/snapshot-leaves-the-trajectory-state", untouched, replay=rp)
                # restart equivalence: solve(N+M) and solve(N);restart(M) differ in the per-call bookkeeping
                # (_nit, _itstart, _cputime): a step whose result depends on it breaks the equivalence
                for a in ("_nit", "_itstart", "_cputime"):
                    prove("restart-equivalence/step-does-not-depend-on-%s" % a, a not in R,
                          replay=dict(rp, args=dict(rp["args"], clause="restart")),
                          note="per-call bookkeeping differs between one solve and solve+restart")
                if not carried:
                    prove("state-independence/step-carries-no-solver-state", True)
                for a in carried:
                    if a in SOUND_CACHE and islinear == 1:
                        prove("carried/%s/sound-cache-of-a-linear-model" % a, True, note="C06: the Jacobian of a linear operator does not depend on the field")
                        continue
                    prove("state-independence/%s-is-reinitialised-by-solve" % a, a not in stale, replay=rp,
                          note="step depends on solver attribute %s that survives solve()" % a)
                    prove("observer-independence/snapshot-step-does-not-write-%s" % a, a not in wside,
                          replay=dict(rp, args=dict(rp["args"], clause="observer")))
                    prove("observer-independence/monitors-do-not-write-%s" % a, a not in frames.get("W_mon", []),
                          replay=dict(rp, args=dict(rp["args"], clause="monitor-trajectory")))
                prove("frames-recorded", len(W) > 0 and "W_solve" in frames)
            chk.run("integrator/%s/islinear=%d" % (nm, islinear), pur)


def build(chk):
    _build_own(chk)
    # the cache the frame argument relies on: the Jacobian kept by a linear model is the operator and calc_jacobian leaves
    # self.residual unspecified, so that each step of the implicit family is a function of (field, dt) only (C06, small sizes)
    from . import C06
    chk.include(C06, r"^size\(n=2,neq=[12]\)/", "uses:C06")
