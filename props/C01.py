"""C01 — discrete conservation of every conserved variable (1-D and 2-D).

Space operator: fvm1d.rhs / fvm2dcart.rhs are executed symbolically (symbolic number of
cells, abstract monotone mesh, every model / reconstruction / boundary pair); the numerical
flux enters through its CONTRACT (pointwise, consistent, wall), the rest of the pipeline is
the real code.  Obligations: the per-cell flux balance, the telescoping sum (sum-induction
lemma), equality of the two end-face fluxes for periodic closure, vanishing mass/energy wall
fluxes for 'sym'.  Each registered flux body is checked to be pointwise (the contract's
frame).  Integrators: every step is Q + sum_s dt*b_s*R_s (normal form proved in C05/C06), so a
global time step keeps the integrals.
"""
import z3
from pyvc import terms as T, arrays as A, npmodel
from pyvc.framework import prove, canary, assume, watch, lemma, sum_by_induction
from contracts.flux_contract import use_flux_contract
from .common import *
from .C18 import reads_only_index


def bc_pairs(kind):
    out = [("per", "per")]
    if kind in ("shallowwater", "euler1d", "nozzle"):
        out.append(("sym", "sym"))
    out.append(("dirichlet", "dirichlet"))
    if kind in ("euler1d", "nozzle"):
        out.append(("insub", "outsub"))
        out.append(("sym", "outsup"))
    return out


def bc_dict(kind, name, side, n=None):
    d = {"type": name}
    if name == "dirichlet":
        d["prim"] = [z3.Real("bc%s_%d" % (side, k)) for k in range({"convection": 1, "burgers": 1, "shallowwater": 2}.get(kind, 3))]
        if kind == "shallowwater":
            assume(d["prim"][0] > 0)
        if kind in ("euler1d", "nozzle"):
            assume(z3.And(d["prim"][0] > 0, d["prim"][2] > 0))
    from .C16 import PARAMS
    for k in PARAMS.get(name, []):
        d[k] = z3.Real("bc%s_%s" % (side, k))
        assume(d[k] > 0)
    return d


def build(chk):
    it = chk.interp
    chk.assumptions += [
        "machine arithmetic treated as mathematical (real) arithmetic ('to round-off' in the statement)",
        "mesh contract of C20 as hypothesis (strictly increasing faces, midpoints)",
        "flux contract (pointwise / consistent / wall) used at the call site; its clauses are proved against every "
        "registered flux body in C01 flux/pointwise, C02, C16 wall",
        "lemma sum-induction (telescoping) for sums over a symbolic number of cells",
        "the flux contract's precondition (admissible extrapolated face states) is NOT required here: the conservation "
        "identity is algebraic in the face fluxes; unlimited reconstructions can produce inadmissible face states (then "
        "the real flux or an inlet condition returns NaN and the identity is void) -- positivity is the subject of C10; "
        "for the same reason no safety obligations (denominators, sqrt/power arguments) are generated in this property: "
        "all floating-point intermediates are assumed finite",
        "linearity of the volume integral: I(Q + sum_s c_s R_s) = I(Q) + sum_s c_s I(R_s) for scalar c_s",
    ]
    # ---- the contract's frame: every registered flux is pointwise -------------------------
    from . import C02
    for kind in MODEL_KINDS:
        names = []

        def enum(kind=kind):
            m, info = make_model(chk, kind)
            names.extend(flux_names(m, kind))
        chk.run("flux/%s/enumerate" % kind, enum, always=True)
        for name in names:
            if (kind, name) in C02.EXCLUDED:
                continue
            for dn, _, nvec in normals(kind, 1):
                def pw(kind=kind, name=name, nvec=nvec):
                    n = z3.Int("n")
                    assume(n >= 1)
                    m, info = make_model(chk, kind)
                    WL, WR = prim_state(kind, n, "L"), prim_state(kind, n, "R")
                    dirv = normals(kind, n)[0 if nvec in (None, (1, 0)) else 1][1]
                    from pyvc.framework import lazy_safety
                    with lazy_safety():
                        F = call_numflux(chk, m, kind, name, WL, WR, dirv)
                    f = z3.Int("f")
                    assume(z3.And(f >= 0, f < n))
                    Ff = flat_at(F, f)
                    prove("pointwise", all(reads_only_index(x, f) for x in Ff),
                          note="the value at face f is a function of the two states at face f only")
                    prove("components", len(Ff) == len(comp_names(kind)))
                    for x in F:
                        if isinstance(x, A.SymArray):
                            prove("length", T.eq(x.length, n))
                chk.run("flux/%s/%s%s/pointwise" % (kind, name or "default", ("/" + dn) if dn else ""), pw)

    # ---- 1-D space operator ---------------------------------------------------------------
    for kind in ("convection", "burgers", "shallowwater", "euler1d", "nozzle"):
        for label, cls, lim in num_configs(chk):
            for bl, br in bc_pairs(kind):
                cfg = "fvm1d/%s/%s/%s-%s" % (kind, label, bl, br)
                chk.configs.append(cfg)
                rp = {"fn": "conservation_clause", "args": {"kind": kind, "num": cls, "limiter": lim, "bcL": bl, "bcR": br}}

                def op(kind=kind, cls=cls, lim=lim, bl=bl, br=br, rp=rp):
                    n = z3.Int("n")
                    assume(n >= 1)
                    watch("n", n)
                    mesh = abstract_mesh1d(chk, n)
                    m, info = make_model(chk, kind, params=({"Aconst": True} if kind == "nozzle" else None))
                    num = make_num(chk, cls, limiter=lim)
                    disc = make_disc1d(chk, m, mesh, num, bcL=bc_dict(kind, bl, "L"), bcR=bc_dict(kind, br, "R"))
                    Q, P = cons_state(kind, n, "W", info)
                    fld = make_field(chk, m, mesh, Q)
                    from pyvc.framework import lazy_safety
                    with use_flux_contract(it, kind, info, requires=False, opaque=True) as fc, lazy_safety():
                        res = it.call(it.getattr(disc, "rhs"), [fld], {})
                    prove("flux-evaluated-once", fc.calls == 1, replay=rp)
                    flux = disc.attrs["flux"]
                    xf = mesh.attrs["xf"]
                    i = z3.Int("i")
                    assume(z3.And(i >= 0, i < n))
                    vol = T.treal(xf.at(i + 1)) - T.treal(xf.at(i))
                    ncomp = len(comp_names(kind))
                    prove("components", len(res) == ncomp and len(flux) == ncomp, replay=rp)
                    # instances of the flux contract at the two end faces
                    if bl == "per":
                        lemma("end-faces-see-the-same-states", fc.instance_equal_faces(0, n))
                    if bl == "sym":
                        lemma("left-face-is-a-wall", fc.instance_wall(0, interior="R"))
                    if br == "sym":
                        lemma("right-face-is-a-wall", fc.instance_wall(n, interior="L"))
                    for k, cn in enumerate(comp_names(kind)):
                        Fk, Rk = flux[k], res[k]
                        prove("shape[%s]" % cn, z3.And(T.tz(T.eq(Rk.length, n)), T.tz(T.eq(Fk.length, n + 1))), replay=rp)
                        prove("cell-balance[%s]" % cn,
                              T.treal(Rk.at(i)) * vol == -(T.treal(Fk.at(i + 1)) - T.treal(Fk.at(i))), replay=rp)
                        # volume integral by the sum-induction lemma
                        Rat, Fat = Rk.at, Fk.at
                        wr = A.SymArray(n, lambda j, Rat=Rat: T.mul(Rat(j), T.sub(xf.at(T.add(j, 1)), xf.at(j))), name="vol*res")
                        S = npmodel.array_sum(wr)
                        sum_by_induction("integral[%s]" % cn, S, wr.at, n, lambda kk, Fat=Fat: T.sub(Fat(0), Fat(kk)))
                        prove("integral-changes-by-boundary-fluxes[%s]" % cn,
                              T.treal(S) == T.treal(Fk.at(0)) - T.treal(Fk.at(n)), replay=rp)
                        if bl == "per":
                            prove("periodic-invariant[%s]" % cn, T.treal(S) == 0, replay=rp)
                        if bl == "sym" and (k == 0 or (k == ncomp - 1 and kind != "shallowwater")):
                            prove("left-wall-no-flux[%s]" % cn, T.treal(Fk.at(0)) == 0, replay=rp)
                        if br == "sym" and (k == 0 or (k == ncomp - 1 and kind != "shallowwater")):
                            prove("right-wall-no-flux[%s]" % cn, T.treal(Fk.at(n)) == 0, replay=rp)
                        if bl == "sym" and br == "sym" and (k == 0 or (k == ncomp - 1 and kind != "shallowwater")):
                            prove("walls-invariant[%s]" % cn, T.treal(S) == 0, replay=rp)
                    canary("canary", T.treal(res[0].at(i)) * vol == 1 - (T.treal(flux[0].at(i + 1)) - T.treal(flux[0].at(i))))
                chk.run(cfg, op)


# ==========================================================================================================================
# 2-D Cartesian operator (symbolic nx, ny; row loops by the parallel-map rule with Euclidean-division skolems)

def build2d(chk):
    it = chk.interp
    from pyvc.framework import lazy_safety
    NUM2D = [("extrapol2d1", False), ("extrapol2dk", True)]
    BC2D = [("per", "per"), ("sym", "sym"), ("per", "sym"), ("sym", "per")]      # (left/right, bottom/top)
    for numname, haskappa in NUM2D:
        for bx, by in BC2D:
            cfg = "fvm2dcart/euler2d/%s/x=%s,y=%s" % (numname, bx, by)
            chk.configs.append(cfg)
            rp = {"fn": "conservation2d_clause", "args": {"num": numname, "bx": bx, "by": by}}

            def op(numname=numname, haskappa=haskappa, bx=bx, by=by, rp=rp):
                nx, ny = z3.Int("nx"), z3.Int("ny")
                lx, ly = z3.Real("lx"), z3.Real("ly")
                assume(z3.And(nx >= 1, ny >= 1, lx > 0, ly > 0))
                mesh = it.call(get(chk, "flowdyn.mesh2d", "mesh2d"), [nx, ny, lx, ly], {})
                m, info = make_model(chk, "euler2d")
                num = it.call(get(chk, "flowdyn.xnum", numname), [z3.Real("kappa")] if haskappa else [], {})
                bc = {"left": {"type": bx}, "right": {"type": bx}, "bottom": {"type": by}, "top": {"type": by}}
                disc = it.call(get(chk, "flowdyn.modeldisc", "fvm2dcart"), [m, mesh, num, bc], {})
                n = nx * ny
                J, I = z3.Int("J"), z3.Int("I")
                assume(z3.And(J >= 0, J < ny, I >= 0, I < nx))
                Jb, Ib = z3.Int("Jb"), z3.Int("Ib")
                assume(z3.And(Jb >= 0, Jb < ny, Ib >= 0, Ib < nx))
                # index arithmetic (nonlinear in nx, ny), proved once and then used by the inline guard decisions
                lemma("index-products", z3.And(J * nx >= 0, (ny - 1 - J) * nx >= 0, Jb * nx >= 0, (ny - 1 - Jb) * nx >= 0,
                                               (nx - 1) * (ny - 1) >= 0))
                Q, P = cons_state("euler2d", n, "W", info)
                fld = make_field(chk, m, mesh, Q)
                with use_flux_contract(it, "euler2d", info, requires=False, opaque=True) as fc, lazy_safety():
                    res = it.call(it.getattr(disc, "rhs"), [fld], {})
                prove("flux-evaluated-once", fc.calls == 1, replay=rp)
                G = fc.last["G"]
                c = J * nx + I
                dx, dy = lx / z3.ToReal(nx), ly / z3.ToReal(ny)
                fsh = ny * (nx + 1)
                resf = flat_at(res, c)
                for k, cn in enumerate(comp_names("euler2d")):
                    Fx1, Fx0 = T.treal(G[k].at(J * (nx + 1) + I + 1)), T.treal(G[k].at(J * (nx + 1) + I))
                    Fy1, Fy0 = T.treal(G[k].at(fsh + (J + 1) * nx + I)), T.treal(G[k].at(fsh + J * nx + I))
                    prove("cell-balance[%s]" % cn, resf[k] * dx * dy == -dy * (Fx1 - Fx0) - dx * (Fy1 - Fy0), replay=rp)
                prove("flux-array-length", T.eq(G[0].length, (nx + 1) * ny + nx * (ny + 1)), replay=rp)
                # boundary faces: periodic pairs see the same states; walls carry no mass / energy
                fl, fr = Jb * (nx + 1), Jb * (nx + 1) + nx
                fb, ft = fsh + Ib, fsh + ny * nx + Ib
                def staged_equal(name, f1, f2):
                    # one lemma per face-state component (small cones), then the contract instance
                    a1, a2 = fc.last["args_at"](f1), fc.last["args_at"](f2)
                    for j, (x, y) in enumerate(zip(a1, a2)):
                        if not (T.is_sym(x) and T.is_sym(y) and x.eq(y)):
                            lemma("%s/arg%d" % (name, j), x == y)
                    lemma(name, fc.instance_equal_faces(f1, f2))
                if bx == "per":
                    staged_equal("left-right-faces-see-the-same-states", fl, fr)
                    for k, cn in enumerate(comp_names("euler2d")):
                        prove("periodic-x[%s]" % cn, T.treal(G[k].at(fl)) == T.treal(G[k].at(fr)), replay=rp)
                else:
                    lemma("left-face-is-a-wall", fc.instance_wall(fl, interior="R"))
                    lemma("right-face-is-a-wall", fc.instance_wall(fr, interior="L"))
                    for k in (0, 3):
                        prove("wall-x-no-flux[%s]" % comp_names("euler2d")[k],
                              z3.And(T.treal(G[k].at(fl)) == 0, T.treal(G[k].at(fr)) == 0), replay=rp)
                if by == "per":
                    staged_equal("bottom-top-faces-see-the-same-states", fb, ft)
                    for k, cn in enumerate(comp_names("euler2d")):
                        prove("periodic-y[%s]" % cn, T.treal(G[k].at(fb)) == T.treal(G[k].at(ft)), replay=rp)
                else:
                    lemma("bottom-face-is-a-wall", fc.instance_wall(fb, interior="R"))
                    lemma("top-face-is-a-wall", fc.instance_wall(ft, interior="L"))
                    for k in (0, 3):
                        prove("wall-y-no-flux[%s]" % comp_names("euler2d")[k],
                              z3.And(T.treal(G[k].at(fb)) == 0, T.treal(G[k].at(ft)) == 0), replay=rp)
            chk.run(cfg, op)
    chk.lemmas.append("2-D: the volume integral is the double telescoping sum of the per-cell balance over rows and columns "
                      "(sum-induction lemma applied along x then y): interior faces cancel, the boundary faces remain")


_build1d = build


def build(chk):
    _build1d(chk)
    build2d(chk)
    # the wall clause of the flux contract used for the slip-wall invariance (every registered flux, C16 wall-flux lemma)
    from . import C16, C20
    chk.include(C16, r"^wall/", "uses:C16")
    chk.include(C20, r".", "uses:C20")          # the mesh contract (faces, centres, dx() == vol() == face spacing)
    # the integrator half of the statement: every integrator updates Q by linear combinations of dt * residual (normal forms)
    from . import C05, C06
    chk.include(C05, r".", "uses:C05")
    chk.include(C06, r"^size\(n=2,neq=[12]\)/|^fd-step", "uses:C06")
