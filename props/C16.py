"""C16 — boundary states satisfy the conditions that define them.

Every registered `bc_*` of every model (enumerated from the `_bcdict` registries) is called
through the real dispatch `model.namedBC(name, dir, data, param)` with a symbolic interior
state and symbolic parameters, for both sides (dir=-1,+1; the normals of the four sides in
2-D), and its result is checked against the definition from the statement, written here
with spec functions (total pressure / temperature, entropy, Riemann invariants,
Rankine-Hugoniot relations, normal/tangential velocity).  Power laws are lemma instances of
Real.rpow_add / Real.rpow_mul (DESIGN §2.4), never assumptions about the code.
"""
import z3
from pyvc import terms as T, arrays as A
from pyvc.framework import prove, canary, assume, watch, lemma
from .common import *


def R(x, y):
    with T.no_safety():
        return T.treal(T.rpow(x, y))


def law_mul(B, a, b):
    """lemma instance (Real.rpow_mul): (B^a)^b = B^(a*b) for B>0"""
    B, a, b = T.treal(B), T.treal(a), T.treal(b)
    assume(z3.Implies(B > 0, R(R(B, a), b) == R(B, a * b)))


def law_add(B, a, b):
    """lemma instance (Real.rpow_add): B^a * B^b = B^(a+b) for B>0"""
    B, a, b = T.treal(B), T.treal(a), T.treal(b)
    assume(z3.Implies(B > 0, R(B, a) * R(B, b) == R(B, a + b)))


def law_exp_eq(B, a, b):
    """congruence helper: equal exponents give equal powers (a, b are different terms for the same number)"""
    assume(z3.Implies(T.treal(a) == T.treal(b), R(B, a) == R(B, b)))


def law_inv(B, a):
    """lemma instance: B^(-a) = 1/B^a"""
    B, a = T.treal(B), T.treal(a)
    assume(z3.Implies(B > 0, R(B, -a) * R(B, a) == 1))


def pos_root(x, y):
    """lemma instance (unique positive root): x,y>=0 and x^2==y^2 imply x==y"""
    x, y = T.treal(x), T.treal(y)
    assume(z3.Implies(z3.And(x >= 0, y >= 0, x * x == y * y), x == y))


def law_mono(x, w, y):
    with T.no_safety():
        T.rpow_inj_law(x, w, y)


# -- spec functions of a 1-D primitive state (rho, u, p); u is the velocity magnitude squared where noted
def a2(g, W):
    return g * W[2] / W[0]


def mach2(g, W, v2=None):
    v2 = W[1] * W[1] if v2 is None else v2
    return v2 / a2(g, W)


def Xfac(g, W, v2=None):
    return 1 + (g - 1) / 2 * mach2(g, W, v2)


def ptot_of(g, W, v2=None):
    return W[2] * R(Xfac(g, W, v2), g / (g - 1))


def rttot_of(g, W, v2=None):
    return W[2] / W[0] * Xfac(g, W, v2)


def clauses_1d(name, d, Win, out, prm, g, H=None):
    """list of (clause, formula) for the 1-D Euler conditions; `d` is -1 or +1"""
    gmu = g - 1
    r0, u0, p0 = Win
    r1, u1, p1 = out
    cl = []
    if name == "sym":
        return [("normal-velocity-reversed", u1 == -u0), ("density-kept", r1 == r0), ("pressure-kept", p1 == p0)]
    if name == "outsup":
        return [("copies", z3.And(r1 == r0, u1 == u0, p1 == p0))]
    if name in ("outsub", "outsub_prim"):
        return [("pressure-imposed", p1 == prm["p"]), ("density-velocity-copied", z3.And(r1 == r0, u1 == u0))]
    if name in ("insub", "insup"):
        pt, rt = prm["ptot"], prm["rttot"]
        pin = p0 if name == "insub" else prm["p"]
        B = pt / pin
        e1 = gmu / g
        # lemma instances on the base B = ptot/p
        law_mul(B, e1, g / gmu)
        law_mul(B, e1, 1 / gmu)
        law_add(B, e1 * (1 / gmu), e1)
        law_exp_eq(B, e1 * (g / gmu), z3.RealVal(1))
        law_exp_eq(B, e1 * (1 / gmu) + e1, z3.RealVal(1))
        regime = pt >= pin
        cl.append(("pressure", p1 == pin))
        cl.append(("flows-inwards", -d * u1 >= 0))
        cl.append(("total-temperature", z3.Implies(regime, rttot_of(g, out) == rt)))
        cl.append(("total-pressure", z3.Implies(regime, ptot_of(g, out) == pt)))
        cl.append(("at-rest-outside-regime", z3.Implies(z3.Not(regime), u1 == 0)))
        return cl
    if name == "insub_cbc":
        pt, rt = prm["ptot"], prm["rttot"]
        with T.no_safety():
            a0, a1 = T.treal(T.sqrt(a2(g, Win))), T.treal(T.sqrt(a2(g, out)))
        if H is not None and (1, "f_m1sqr") in H.store and (1, "a1") in H.store:
            # staged ghost lemmas over the cut locals F = f_m1sqr and A1 = a1
            F = T.treal(H.store[(1, "f_m1sqr")]["opaque"])
            A1 = T.treal(H.store[(1, "a1")]["opaque"])
            law_add(F, 1 / gmu, 1)
            law_inv(F, g / gmu)
            law_inv(F, 1 / gmu)
            law_add(F, g / gmu, -(1 / gmu))
            law_exp_eq(F, g / gmu + -(1 / gmu), z3.RealVal(1))
            law_inv(F, z3.RealVal(1))
            lemma("total-enthalpy-on-characteristic", A1 * A1 + gmu / 2 * u1 * u1 == g * rt)
            lemma("temperature-ratio", p1 / r1 * F == rt)
            lemma("sound-speed", g * p1 / r1 == A1 * A1)
            pos_root(a1, A1)
            lemma("sound-speed-root", a1 == A1)
            lemma("mach-factor", Xfac(g, out) == F)
        cl.append(("total-temperature", rttot_of(g, out) == rt))
        cl.append(("total-pressure", ptot_of(g, out) == pt))
        cl.append(("outgoing-invariant", u1 + d * 2 * a1 / gmu == u0 + d * 2 * a0 / gmu))
        return cl
    if name == "outsub_qtot":
        pe = prm["p"]
        pt0 = ptot_of(g, Win)
        X0 = Xfac(g, Win)
        B = pt0 / pe
        e1 = gmu / g
        law_mul(B, e1, g / gmu)
        law_mul(B, e1, 1 / gmu)
        law_add(B, e1 * (1 / gmu), e1)
        law_exp_eq(B, e1 * (g / gmu), z3.RealVal(1))
        law_exp_eq(B, e1 * (1 / gmu) + e1, z3.RealVal(1))
        regime = pt0 >= pe
        cl.append(("pressure-imposed", p1 == pe))
        cl.append(("flows-outwards", d * u1 >= 0))
        cl.append(("total-temperature-kept", z3.Implies(regime, rttot_of(g, out) == rttot_of(g, Win))))
        cl.append(("total-pressure-kept", z3.Implies(regime, ptot_of(g, out) == pt0)))
        return cl
    if name == "outsub_rh":
        pe = prm["p"]
        # Rankine-Hugoniot relations across a discontinuity moving at Ws (eliminated through the mass relation)
        h0, h1 = g / gmu * p0 / r0, g / gmu * p1 / r1
        Ws = z3.Real("Ws")
        assume(z3.Implies(r1 != r0, Ws * (r1 - r0) == r1 * u1 - r0 * u0))
        w0, w1 = u0 - Ws, u1 - Ws
        jump = r1 != r0
        cl.append(("pressure-imposed", p1 == pe))
        cl.append(("rh-momentum", z3.Implies(jump, r1 * w1 * w1 + p1 == r0 * w0 * w0 + p0)))
        cl.append(("rh-energy", z3.Implies(jump, h1 + w1 * w1 / 2 == h0 + w0 * w0 / 2)))
        cl.append(("no-jump-copies", z3.Implies(pe == p0, z3.And(r1 == r0, u1 == u0))))
        return cl
    if name == "outsub_nrcbc":
        pe = prm["p"]
        B = pe / p0
        law_mul(B, 1 / g, g)
        law_exp_eq(B, (1 / g) * g, z3.RealVal(1))
        with T.no_safety():
            T.rpow_base_mul_law(r0, R(B, 1 / g), g)
            a0, a1 = T.treal(T.sqrt(a2(g, Win))), T.treal(T.sqrt(a2(g, out)))
        cl.append(("pressure-imposed", p1 == pe))
        cl.append(("entropy-kept", p1 / R(r1, g) == p0 / R(r0, g)))
        cl.append(("outgoing-invariant", u1 + d * 2 * a1 / gmu == u0 + d * 2 * a0 / gmu))
        return cl
    return None


def regime_1d(name, d, Win, prm, g):
    """admissible parameter sets / the condition's regime"""
    gmu = g - 1
    r0, u0, p0 = Win
    out = []
    for k in ("ptot", "rttot", "p"):
        if k in prm:
            out.append(prm[k] > 0)
    if name == "insub_cbc":
        with T.no_safety():
            a0 = T.treal(T.sqrt(a2(g, Win)))
        inv = u0 + d * 2 * a0 / gmu
        disc = g * (g + 1) / gmu * prm["rttot"] - gmu / 2 * inv * inv
        # regime: real characteristic solution with a positive sound speed
        with T.no_safety():
            out += [disc >= 0, d * inv + T.treal(T.sqrt(disc)) > 0]
    if name == "outsub_rh":
        pr = prm["p"] / p0
        out.append(1 + (pr - 1) * (g + 1) / (2 * g) > 0)
    return out


PARAMS = {"insub": ["ptot", "rttot"], "insub_cbc": ["ptot", "rttot"], "insup": ["ptot", "rttot", "p"],
          "outsub": ["p"], "outsub_prim": ["p"], "outsub_qtot": ["p"], "outsub_rh": ["p"], "outsub_nrcbc": ["p"],
          "outsup": [], "sym": [], "inf": [], "dirichlet": []}


def build(chk):
    it = chk.interp
    chk.assumptions += [
        "machine arithmetic treated as mathematical (real) arithmetic",
        "x**y, sqrt as uninterpreted functions; power laws are instantiated lemma instances of Real.rpow_add/rpow_mul",
        "regimes: insub/insup/outsub_qtot total-quantity clauses for ptot>=p (outside, the code clips to rest and the "
        "contract states u=0); insub_cbc for a real characteristic solution with positive sound speed; outsub_rh for a "
        "positive shock Mach number",
    ]
    for kind in MODEL_KINDS:
        names = []

        def enum(kind=kind):
            m, info = make_model(chk, kind)
            names.extend(sorted(m.attrs["_bcdict"].attrs["dict"].keys()))
        chk.run("%s/enumerate" % kind, enum, always=True)
        chk.configs.append("%s: %s" % (kind, ",".join(names)))
        seen_nozzle = kind == "nozzle"
        for name in names:
            if name not in PARAMS:
                chk.notes.append("boundary condition %s/%s has no definition in the statement: not checked" % (kind, name))
                continue
            if kind == "euler2d":
                sides = [("left", (-1, 0)), ("right", (1, 0)), ("bottom", (0, -1)), ("top", (0, 1))]
            else:
                sides = [("dir=-1", -1), ("dir=+1", 1)]
            for sname, d in sides:
                rp = {"fn": "bc_clause", "args": {"kind": kind, "bc": name, "dir": d}}

                def bc(kind=kind, name=name, d=d, rp=rp):
                    m, info = make_model(chk, kind)
                    g = info.get("gamma")
                    for k in ("gamma", "g", "a"):
                        if k in info:
                            watch(k, info[k])
                    prm = {k: z3.Real("prm_" + k) for k in PARAMS[name]}
                    for k, v in prm.items():
                        watch("prm_" + k, v)
                    if kind == "euler2d":
                        return bc2d(chk, m, info, name, d, prm, rp)
                    if name == "dirichlet":
                        nv = NCOMP[kind]
                        prim = [z3.Real("prim%d" % k) for k in range(nv)]
                        Win = [z3.Real("W%d" % k) for k in range(nv)]
                        out = it.call(it.getattr(m, "namedBC"), [name, d, Win, {"type": name, "prim": prim}], {})
                        prove("returns-imposed-state", len(out) == nv and z3.And(*[T.treal(o) == q for o, q in zip(out, prim)]),
                              replay=rp)
                        return
                    if kind == "shallowwater":
                        h, u = z3.Real("W0"), z3.Real("W1")
                        assume(h > 0)
                        watch("W0", h)
                        watch("W1", u)
                        out = it.call(it.getattr(m, "namedBC"), [name, d, [h, u], {"type": name}], {})
                        if name == "sym":
                            prove("normal-velocity-reversed", T.treal(out[1]) == -u, replay=rp)
                            prove("depth-kept", T.treal(out[0]) == h, replay=rp)
                        elif name == "inf":
                            prove("copies", z3.And(T.treal(out[0]) == h, T.treal(out[1]) == u), replay=rp)
                        return
                    Win = [z3.Real("W0"), z3.Real("W1"), z3.Real("W2")]
                    for k, w in enumerate(Win):
                        watch("W%d" % k, w)
                    assume(z3.And(Win[0] > 0, Win[2] > 0))
                    for f in regime_1d(name, d, Win, prm, g):
                        assume(f)
                    param = dict(prm)
                    param["type"] = name
                    from contracts import bc_hints
                    H = bc_hints.install(it, name)
                    out = it.call(it.getattr(m, "namedBC"), [name, d, list(Win), param], {})
                    it.hints = None
                    if not isinstance(out, (list, tuple)) or len(out) != 3:
                        raise T.EngineError("boundary condition did not return three components")
                    out = [T.treal(o) for o in out]
                    prove("admissible-density", out[0] > 0, replay=dict(rp, args=dict(rp["args"], clause="admissible")))
                    cls = clauses_1d(name, d, Win, out, prm, g, H)
                    for cn, f in cls:
                        prove(cn, f, replay=dict(rp, args=dict(rp["args"], clause=cn)))
                    canary("canary", out[0] <= 0)
                if seen_nozzle:
                    continue
                chk.run("%s/%s/%s" % (kind, name, sname), bc)
        if seen_nozzle:
            chk.notes.append("nozzle inherits every bc_* function object from euler1d: verified there")

    wall_flux(chk)


NCOMP = {"convection": 1, "burgers": 1, "shallowwater": 2, "euler1d": 3, "nozzle": 3, "euler2d": 3}


def bc2d(chk, m, info, name, d, prm, rp):
    it = chk.interp
    g = info["gamma"]
    n = z3.Int("n")
    assume(n >= 1)
    W = prim_state("euler2d", n, "W")
    i = z3.Int("i")
    assume(z3.And(i >= 0, i < n))
    Wi = flat_at(W, i)
    for k, w in enumerate(Wi):
        watch("W%d" % k, w)
    dirv = A.Sym2D([A.full(n, d[0]), A.full(n, d[1])])
    for k in prm:
        assume(prm[k] > 0)
    param = dict(prm)
    param["type"] = name
    if name == "dirichlet":
        prim = prim_state("euler2d", n, "B")
        out = it.call(it.getattr(m, "namedBC"), [name, dirv, W, {"type": name, "prim": prim}], {})
        prove("returns-imposed-state", z3.And(*[a == b for a, b in zip(flat_at(out, i), flat_at(prim, i))]), replay=rp)
        return
    out = it.call(it.getattr(m, "namedBC"), [name, dirv, W, param], {})
    if not isinstance(out, (list, tuple)) or len(out) != 3 or not isinstance(out[1], A.Sym2D):
        raise T.EngineError("2-D boundary condition result has the wrong structure")
    r1, ux1, uy1, p1 = flat_at(out, i)
    r0, ux0, uy0, p0 = Wi
    nx, ny = d
    un0, un1 = ux0 * nx + uy0 * ny, ux1 * nx + uy1 * ny
    ut0, ut1 = -ux0 * ny + uy0 * nx, -ux1 * ny + uy1 * nx
    rpc = lambda c: dict(rp, args=dict(rp["args"], clause=c))
    if name == "sym":
        prove("normal-velocity-reversed", un1 == -un0, replay=rpc("sym"))
        prove("tangential-velocity-kept", ut1 == ut0, replay=rpc("sym"))
        prove("density-pressure-kept", z3.And(r1 == r0, p1 == p0), replay=rpc("sym"))
    elif name == "outsup":
        prove("copies", z3.And(r1 == r0, ux1 == ux0, uy1 == uy0, p1 == p0), replay=rpc("copies"))
    elif name == "outsub":
        prove("pressure-imposed", p1 == prm["p"], replay=rpc("outsub"))
        prove("density-velocity-copied", z3.And(r1 == r0, ux1 == ux0, uy1 == uy0), replay=rpc("outsub"))
    elif name in ("insub", "insup"):
        gmu = g - 1
        pt, rt = prm["ptot"], prm["rttot"]
        pin = p0 if name == "insub" else prm["p"]
        B = pt / pin
        e1 = gmu / g
        law_mul(B, e1, g / gmu)
        law_mul(B, e1, 1 / gmu)
        law_add(B, e1 * (1 / gmu), e1)
        law_exp_eq(B, e1 * (g / gmu), z3.RealVal(1))
        law_exp_eq(B, e1 * (1 / gmu) + e1, z3.RealVal(1))
        regime = pt >= pin
        v2 = ux1 * ux1 + uy1 * uy1
        o = [r1, None, p1]
        prove("pressure", p1 == pin, replay=rpc("in"))
        prove("flows-inwards-along-normal", z3.And(un1 <= 0, ut1 == 0), replay=rpc("in"))
        prove("total-temperature", z3.Implies(regime, rttot_of(g, o, v2) == rt), replay=rpc("in"))
        prove("total-pressure", z3.Implies(regime, ptot_of(g, o, v2) == pt), replay=rpc("in"))
    else:
        T.cur().notes.append("2-D boundary condition %s has no definition in the statement" % name)
        return
    canary("canary", r1 <= 0)


def wall_flux(chk):
    """'sym' reverses the normal velocity only, so no mass or energy crosses a wall: for every
    registered flux the mass and energy (depth) components vanish between a state and its wall image"""
    from . import C02
    from contracts import flux_hints
    it = chk.interp
    done = {}
    for kind in ("shallowwater", "euler1d", "nozzle", "euler2d"):
        names = []

        def enum(kind=kind):
            m, info = make_model(chk, kind)
            for nm in flux_names(m, kind):
                names.append((nm, m.attrs["_numfluxdict"].attrs["dict"][nm]))
        chk.run("wall/%s/enumerate" % kind, enum, always=True)
        for name, fobj in names:
            if (kind, name) in C02.EXCLUDED:
                continue
            key = (id(fobj), kind == "euler2d")
            if key in done:
                continue
            done[key] = 1
            for dn, _, nvec in normals(kind, 1):
                for side in ("right-wall", "left-wall"):
                    rp = {"fn": "wall_flux_clause", "args": {"kind": kind, "flux": name, "normal": nvec, "side": side}}

                    def wall(kind=kind, name=name, nvec=nvec, side=side, rp=rp):
                        n = z3.Int("n")
                        assume(n >= 1)
                        m, info = make_model(chk, kind)
                        C02.watch_params(info)
                        W = prim_state(kind, n, "W")
                        i = z3.Int("i")
                        assume(z3.And(i >= 0, i < n))
                        C02.watch_state("WL", flat_at(W, i))
                        dirv = normals(kind, n)[0 if nvec in (None, (1, 0)) else 1][1]
                        # wall image through the real bc_sym
                        dd = dirv if kind == "euler2d" else (1 if side == "right-wall" else -1)
                        if kind == "euler2d" and side == "left-wall":
                            dd = A.elementwise(T.neg, [dirv])
                        Wb = it.call(it.getattr(m, "namedBC"), ["sym", dd, W, {"type": "sym"}], {})
                        H = flux_hints.install(it, kind, name, mirror=False)
                        if side == "right-wall":
                            F = C02.run_flux(chk, m, kind, name, W, Wb, dirv, H, 1)
                        else:
                            F = C02.run_flux(chk, m, kind, name, Wb, W, dirv, H, 1)
                        it.hints = None
                        Fi = flat_at(F, i)
                        comps = comp_names(kind)
                        if H is not None and (1, "sM") in H.store:
                            lemma("contact-at-rest", T.treal(H.store[(1, "sM")]["opaque"].at(i)) == 0)
                        prove("no-mass-flux", Fi[0] == 0, replay=rp, samples=C02.SAMPLES[kind])
                        if kind != "shallowwater":
                            prove("no-energy-flux", Fi[-1] == 0, replay=rp, samples=C02.SAMPLES[kind])
                        C02.result_safety("wall", name, F, i, H)
                        C02.finish_hints(chk, H)
                    chk.run("wall/%s/%s%s/%s" % (kind, name, ("/" + dn) if dn else "", side), wall)
