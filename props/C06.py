"""C06 — implicit integrators solve the linearised theta / BDF2 system.

The real calc_jacobian / solve_implicit / implicit.step / trapezoidal.step / gear.step are
executed symbolically against an abstract LINEAR right-hand side R(Y) = A Y (A: arbitrary
symbolic matrix, the contract of modeldisc.rhs for the convection model with a linear
reconstruction) and numpy.linalg.solve through its assumed contract (returns x with M x = b).
Every identity holds for all matrix entries, fields and dt, but for FIXED SYSTEM SIZES
(ncell x neq in {1x1, 2x1, 3x1, 2x2}: the loops of calc_jacobian are unrolled) -- a bounded
stand-in in the mesh size, stated as such.  Unbounded parts: the finite-difference step window
(rounding model), non-vanishing perturbation, amplification-factor and order lemmas.
"""
import z3
from fractions import Fraction
from pyvc import terms as T, arrays as A
from pyvc.framework import prove, canary, assume, watch, lemma, lazy_safety
from pyvc.hints import Hints
from .common import *
from .intcommon import *

SIZES = [(1, 1), (2, 1), (3, 1), (2, 2), (3, 2)]
EPS_LO, EPS_HI = Fraction("4.4e-13"), Fraction("1e-3")


def list_array(xs, name="vec"):
    xs = list(xs)

    def fn(i):
        v = T.conc_value(T.tz(i))
        return xs[int(v)] if v is not None and 0 <= int(v) < len(xs) else _sel(xs, i)
    return A.SymArray(len(xs), fn, name=name)


def vec(name, n):
    xs = [z3.Real("%s_%d" % (name, k)) for k in range(n)]
    return list_array(xs, name), xs


def _sel(xs, i):
    r = xs[-1]
    for k in range(len(xs) - 2, -1, -1):
        r = T.ite(T.eq(i, k), xs[k], r)
    return r


class LinearRHS:
    """R(Y)[q][cell] = sum_{q',c'} A[(cell,q),(c',q')] Y[q'][c']  (layout row = cell*neq + eq)"""

    def __init__(self, neq, n):
        self.neq, self.n = neq, n
        self.dim = neq * n
        self.Am = [[z3.Real("A_%d_%d" % (r, c)) for c in range(self.dim)] for r in range(self.dim)]
        self.ncalls = 0

    def apply_list(self, Y):
        """Y: flat list (row layout) -> flat list"""
        return [sum(self.Am[r][c] * Y[c] for c in range(self.dim)) for r in range(self.dim)]

    def __call__(self, field):
        self.ncalls += 1
        data = field.attrs["data"]
        Y = [T.treal(data[c % self.neq].at(c // self.neq)) for c in range(self.dim)]
        R = self.apply_list(Y)
        out = []
        for q in range(self.neq):
            vals = [R[cell * self.neq + q] for cell in range(self.n)]
            out.append(list_array(vals, "R%d" % q))
        return out


class JacobianContract:
    """contract of implicitmodel.calc_jacobian for a linear operator R(Y)=AY, used at the call sites
    inside the step methods (modular): ensures  self.jacobian == A  (row = cell*neq+eq),
    self.neq, self.dim set, jacobian_use set; frame: writes exactly {jacobian, jacobian_use, neq, dim, residual} of the solver
    (residual is left unspecified), nothing of the field (obligation calc_jacobian/frame on the body).
    Proved against the body by the obligations 'calc_jacobian/*' (direct call, same sizes)."""

    def __init__(self, rhs):
        self.rhs = rhs
        self.calls = 0

    def apply(self, interp, f, bound):
        from pyvc.npmodel import SymMatrix
        self.calls += 1
        slf, fld = bound["self"], bound["field"]
        if fld.attrs["model"].attrs["islinear"] == 1 and "jacobian_use" in slf.attrs:
            return None
        Am = self.rhs.Am
        d = self.rhs.dim
        # frame: the body evaluates the operator on perturbed fields, so it leaves self.residual holding the right-hand side of
        # the LAST PERTURBED field: unspecified for the caller (havoc) -- a step that uses it afterwards without recomputing is wrong
        slf.attrs["residual"] = [A.input_array("residual_left_by_calc_jacobian_%d_" % q, self.rhs.n) for q in range(self.rhs.neq)]
        slf.attrs["neq"] = fld.attrs["neq"]
        slf.attrs["dim"] = d
        slf.attrs["jacobian"] = SymMatrix(d, d, lambda r, c: Am[int(T.conc_value(T.tz(r)))][int(T.conc_value(T.tz(c)))], name="A")
        slf.attrs["jacobian_use"] = 0
        T.cur().trace.append(("contract", "flowdyn.integration::implicitmodel.calc_jacobian"))
        return slf.attrs["jacobian"]


QN_JAC = "flowdyn.integration::implicitmodel.calc_jacobian"


def linsolve_facts():
    """assumed contract of numpy.linalg.solve: M x = b (rows as facts), for the recorded calls;
    returns the row defects (M x - b)_r of the last call as terms (each is 0 by the contract)"""
    ses = T.cur()
    defects = []
    for (M, b, x) in ses.ghost.get("linsolves", []):
        n = b.length
        if T.is_sym(n):
            raise T.EngineError("linear solve of symbolic size")
        defects = []
        for r in range(n):
            d = sum(T.treal(M.at(r, c)) * T.treal(x.at(c)) for c in range(n)) - T.treal(b.at(r))
            ses.add_fact(d == 0)
            defects.append(d)
    return defects


def from_row(label, goal_lhs, goal_rhs, defect, scale, replay):
    """staged proof: the target equation is `scale` times row r of the solved system: the rational
    identity (lhs - rhs) == scale * (M x - b)_r is a lemma (pure algebra, no hypotheses on x), the
    goal then follows from the contract of linalg.solve"""
    from pyvc.symcheck import rational_identity
    try:
        ok = rational_identity(goal_lhs - goal_rhs, scale * defect)
    except ValueError as e:
        ok = None
    if ok:
        # lemma (exact rational-function identity, sympy): the goal is `scale` x the solved row
        prove(label + "/is-a-multiple-of-the-solved-row", True, kind="lemma", note="sympy: exact rational identity")
        d = T.cur().fresh("rowdefect")          # opaque name for (M x - b)_r, zero by the contract of linalg.solve
        assume(d == 0)
        assume(goal_lhs - goal_rhs == scale * d)
    else:
        T.cur().notes.append("row-multiple lemma not established for %s (%s)" % (label, ok))
    prove(label, goal_lhs == goal_rhs, replay=replay)


def build(chk):
    it = chk.interp
    chk.assumptions += [
        "machine arithmetic treated as mathematical (real) arithmetic, except the finite-difference step window "
        "(standard rounding model fl(x)=x(1+d), |d|<=2^-53)",
        "numpy.linalg.solve: assumed contract 'returns x with M x = b' (matrix nonsingular)",
        "BOUNDED in the system size: the linear-system identities are proved for ncell x neq in %s (all matrix entries, "
        "fields, dt symbolic); the loops of calc_jacobian are unrolled for these sizes" % (SIZES,),
    ]
    chk.bounded.append({"what": "system size of the implicit linear systems", "bound": "ncell x neq in %s" % (SIZES,),
                        "symbolic": "operator entries, field values, dt, history"})
    mod = it.load("flowdyn.integration")
    for (n, neq) in SIZES:
        for nm in ("implicit", "backwardeuler", "trapezoidal", "cranknicolson", "gear"):
            rp = {"fn": "implicit_clause", "args": {"integrator": nm, "n": n, "neq": neq}}

            def one(n=n, neq=neq, nm=nm, rp=rp):
                cls = mod.env.vars[nm]
                rhs = LinearRHS(neq, n)
                S = make_setup(chk, cls, neq=neq, n=n, rhs=rhs)
                Qs = []
                for q in range(neq):
                    arr, xs = vec("Q%d" % q, n)
                    Qs.append(xs)
                    S["field"].attrs["data"][q] = arr
                dt = z3.Real("dt")
                assume(dt > 0)
                watch("dt", dt)
                # non-vanishing finite-difference perturbation (precondition examined separately below)
                for q in range(neq):
                    assume(sum(zabs(x) for x in Qs[q]) > 0)
                Q0 = [Qs[c % neq][c // neq] for c in range(rhs.dim)]
                t0 = S["t0"]
                if nm == "implicit":
                    # the contract of calc_jacobian against its body (direct call on a copy of the field)
                    slv_ = S["solver"]
                    log = {id(slv_): {"obj": slv_, "read": [], "write": []}}
                    it.attr_log = log
                    try:
                        it.call(it.getattr(slv_, "calc_jacobian"), [it.call(it.getattr(S["field"], "copy"), [], {})], {})
                    finally:
                        it.attr_log = None
                    written = sorted(set(log[id(slv_)]["write"]))
                    prove("calc_jacobian/frame", set(written) <= {"jacobian", "jacobian_use", "neq", "dim", "residual"}, replay=rp,
                          note="attributes of the solver written by the body: %s" % (written,))
                    J = S["solver"].attrs["jacobian"]
                    for r in range(rhs.dim):
                        for c in range(rhs.dim):
                            prove("calc_jacobian/jacobian-is-the-operator[%d,%d]" % (r, c), T.treal(J.at(r, c)) == rhs.Am[r][c],
                                  replay=rp)
                    prove("calc_jacobian/sets-dimensions", S["solver"].attrs.get("dim") == rhs.dim and S["solver"].attrs.get("neq") == neq,
                          replay=rp)
                    for k in ("jacobian", "jacobian_use", "dim", "neq", "residual"):
                        S["solver"].attrs.pop(k, None)
                jc = JacobianContract(rhs)
                it.contracts[QN_JAC] = jc
                it.active_contracts.add(QN_JAC)
                try:
                    it.call(it.getattr(S["solver"], "step"), [S["field"], dt], {})
                finally:
                    it.active_contracts.discard(QN_JAC)
                D1 = linsolve_facts()
                Q1 = [T.treal(S["field"].attrs["data"][c % neq].at(c // neq)) for c in range(rhs.dim)]
                AQ1, AQ0 = rhs.apply_list(Q1), rhs.apply_list(Q0)
                prove("jacobian-computed-once-per-step", jc.calls == 1, replay=rp)
                if nm in ("implicit", "backwardeuler"):
                    for r in range(rhs.dim):
                        from_row("backward-euler-system[%d]" % r, Q1[r] - dt * AQ1[r], Q0[r], D1[r], dt, rp)
                else:
                    # trapezoidal / cranknicolson / gear's first step: one Crank-Nicolson step of size dt
                    for r in range(rhs.dim):
                        from_row("crank-nicolson-system[%d]" % r, Q1[r] - dt / 2 * AQ1[r], Q0[r] + dt / 2 * AQ0[r], D1[r], dt, rp)
                prove("time-advances-by-dt", T.treal(S["field"].attrs["time"]) == t0 + dt,
                      replay=dict(rp, args=dict(rp["args"], clause="time")))
                if nm == "gear":
                    # second step: BDF2 recurrence under the history invariant last = (Q1 - Q0)/dt
                    last = S["solver"].attrs.get("_lastresidual")
                    for q in range(neq):
                        for cell in range(n):
                            prove("history-is-the-last-increment[%d,%d]" % (q, cell),
                                  T.treal(last[q].at(cell)) * dt == Q1[cell * neq + q] - Q0[cell * neq + q], replay=rp)
                    it.active_contracts.add(QN_JAC)
                    try:
                        it.call(it.getattr(S["solver"], "step"), [S["field"], dt], {})
                    finally:
                        it.active_contracts.discard(QN_JAC)
                    T.cur().ghost["linsolves"] = T.cur().ghost.get("linsolves", [])[-1:]
                    D2 = linsolve_facts()
                    Q2 = [T.treal(S["field"].attrs["data"][c % neq].at(c // neq)) for c in range(rhs.dim)]
                    AQ2 = rhs.apply_list(Q2)
                    for r in range(rhs.dim):
                        lemma("bdf2-recurrence[%d]/history" % r,
                              T.treal(last[r % neq].at(r // neq)) * dt == Q1[r] - Q0[r])
                        from_row("bdf2-recurrence[%d]" % r, 3 * Q2[r] - 4 * Q1[r] + Q0[r], 2 * dt * AQ2[r], D2[r], 2 * dt, rp)
                    prove("time-after-two-steps", T.treal(S["field"].attrs["time"]) == t0 + 2 * dt,
                          replay=dict(rp, args=dict(rp["args"], clause="time")))
                    # the step re-establishes the history invariant for the next one
                    last2 = S["solver"].attrs.get("_lastresidual")
                    for q in range(neq):
                        for cell in range(n):
                            prove("history-after-the-bdf2-step[%d,%d]" % (q, cell),
                                  T.treal(last2[q].at(cell)) * dt == Q2[cell * neq + q] - Q1[cell * neq + q],
                                  replay=dict(rp, args=dict(rp["args"], clause="history")))
                canary("canary", Q1[0] == Q0[0] + 1)
            chk.run("size(n=%d,neq=%d)/%s" % (n, neq, nm), one)

        # local time steps (directives={'dtlocal': True}: dtloc is an array, one value per cell): the step solves the system
        # with dt_i on every equation of cell i (statement: "for every field, mesh and dt")
        for nm in ("implicit", "cranknicolson"):
            rpl = {"fn": "implicit_clause", "args": {"integrator": nm, "n": n, "neq": neq, "clause": "local-dt"}}

            def local(n=n, neq=neq, nm=nm, rp=rpl):
                cls = mod.env.vars[nm]
                rhs = LinearRHS(neq, n)
                S = make_setup(chk, cls, neq=neq, n=n, rhs=rhs)
                Qs = []
                for q in range(neq):
                    arr, xs = vec("Q%d" % q, n)
                    Qs.append(xs)
                    S["field"].attrs["data"][q] = arr
                dtarr, dts = vec("dt", n)
                for d in dts:
                    assume(d > 0)
                Q0 = [Qs[c % neq][c // neq] for c in range(rhs.dim)]
                jc = JacobianContract(rhs)
                it.contracts[QN_JAC] = jc
                it.active_contracts.add(QN_JAC)
                try:
                    it.call(it.getattr(S["solver"], "step"), [S["field"], dtarr], {})
                finally:
                    it.active_contracts.discard(QN_JAC)
                D1 = linsolve_facts()
                Q1 = [T.treal(S["field"].attrs["data"][c % neq].at(c // neq)) for c in range(rhs.dim)]
                AQ1, AQ0 = rhs.apply_list(Q1), rhs.apply_list(Q0)
                for r in range(rhs.dim):
                    d = dts[r // neq]
                    if nm == "implicit":
                        from_row("backward-euler-system[%d]" % r, Q1[r] - d * AQ1[r], Q0[r], D1[r], d, rp)
                    else:
                        from_row("crank-nicolson-system[%d]" % r, Q1[r] - d / 2 * AQ1[r], Q0[r] + d / 2 * AQ0[r], D1[r], d, rp)
                canary("canary", Q1[0] == Q0[0] + 1)
            chk.run("local-dt/size(n=%d,neq=%d)/%s" % (n, neq, nm), local)

        # inductive step of gear: from ANY state with a history satisfying the invariant (last = (Q_n - Q_{n-1})/dt for an
        # arbitrary previous state), one step satisfies the BDF2 recurrence and re-establishes the invariant
        rpg = {"fn": "implicit_clause", "args": {"integrator": "gear", "n": n, "neq": neq, "clause": "history"}}

        def induct(n=n, neq=neq, rp=rpg):
            cls = mod.env.vars["gear"]
            rhs = LinearRHS(neq, n)
            S = make_setup(chk, cls, neq=neq, n=n, rhs=rhs)
            Qs, Ls, hist = [], [], []
            for q in range(neq):
                arr, xs = vec("Q%d" % q, n)
                Qs.append(xs)
                S["field"].attrs["data"][q] = arr
                larr, ls = vec("L%d" % q, n)
                Ls.append(ls)
                hist.append(larr)
            S["solver"].attrs["_lastresidual"] = hist
            dt = z3.Real("dt")
            assume(dt > 0)
            for q in range(neq):
                assume(sum(zabs(x) for x in Qs[q]) > 0)
            Q1 = [Qs[c % neq][c // neq] for c in range(rhs.dim)]
            L = [Ls[c % neq][c // neq] for c in range(rhs.dim)]
            Q0 = [a - dt * b for a, b in zip(Q1, L)]         # the previous state the history stands for
            t0 = S["t0"]
            jc = JacobianContract(rhs)
            it.contracts[QN_JAC] = jc
            it.active_contracts.add(QN_JAC)
            try:
                it.call(it.getattr(S["solver"], "step"), [S["field"], dt], {})
            finally:
                it.active_contracts.discard(QN_JAC)
            D2 = linsolve_facts()
            Q2 = [T.treal(S["field"].attrs["data"][c % neq].at(c // neq)) for c in range(rhs.dim)]
            AQ2 = rhs.apply_list(Q2)
            for r in range(rhs.dim):
                from_row("bdf2-recurrence[%d]" % r, 3 * Q2[r] - 4 * Q1[r] + Q0[r], 2 * dt * AQ2[r], D2[r], 2 * dt, rp)
            last2 = S["solver"].attrs.get("_lastresidual")
            for q in range(neq):
                for cell in range(n):
                    prove("history-invariant-preserved[%d,%d]" % (q, cell),
                          T.treal(last2[q].at(cell)) * dt == Q2[cell * neq + q] - Q1[cell * neq + q], replay=rp)
            prove("time-advances-by-dt", T.treal(S["field"].attrs["time"]) == t0 + dt, replay=dict(rp, args=dict(rp["args"], clause="time")))
            canary("canary", Q2[0] == Q1[0] + 1)
        chk.run("size(n=%d,neq=%d)/gear/inductive-step" % (n, neq), induct)

    # ---- finite-difference perturbation (all sizes: symbolic ncell) ---------------------------------
    def fdstep():
        cls = mod.env.vars["implicit"]
        S = make_setup(chk, cls, neq=2)
        H = Hints()
        store = {}
        H.add("integration.implicitmodel.calc_jacobian", "eps", lambda H_, v, env: (store.__setitem__("eps", v), v)[1])
        it.hints = H
        try:
            with lazy_safety():
                it.call(it.getattr(S["solver"], "calc_jacobian"), [S["field"]], {})
        except T.EngineError:
            pass            # the column loop over a symbolic ncell is outside the subset; eps is assigned before it
        it.hints = None
        eps = store.get("eps")
        rp = {"fn": "fd_step_clause", "args": {}}
        if eps is None:
            prove("perturbation-found", False, note="local 'eps' of calc_jacobian not found")
            return
        sums = T.cur().ghost.get("sums", [])
        n = S["n"]
        for q in range(2):
            if q < len(sums):
                assume(sums[q][2] > 0)      # a component that is not identically zero (the other case: fd-step-nonzero)
        for q in range(2):
            # eps[q] = rel * (sum|q| / ncell): extract rel
            Ssym = sums[q][2] if q < len(sums) else None
            e = T.treal(eps[q])
            if Ssym is None:
                prove("perturbation-form[%d]" % q, False)
                continue
            rel = z3.simplify(z3.substitute(e, (Ssym, z3.RealVal(1)), (n, z3.IntVal(1))))
            relv = T.conc_value(rel)
            prove("perturbation-proportional-to-mean-magnitude[%d]" % q,
                  relv is not None and e == T.tz(Fraction(relv)) * Ssym / z3.ToReal(n), replay=rp)
            if relv is not None:
                relv = Fraction(relv)
                chk.native("fd-step/relative-perturbation-in-window[%d]" % q, EPS_LO <= relv <= EPS_HI,
                           "relative perturbation %.3e; window [%.1e, %.1e]: rounding term 2u/eps and truncation term eps "
                           "both below 1e-3" % (float(relv), float(EPS_LO), float(EPS_HI)), replay=rp, backend="exact-rational")
    chk.run("fd-step", fdstep)
    # eps must not vanish for an admissible field: a conserved variable that is identically zero
    # (momentum of a fluid at rest) is admissible
    def nonzero():
        cls = mod.env.vars["implicit"]
        S = make_setup(chk, cls, neq=2)
        store = {}
        H = Hints()
        H.add("integration.implicitmodel.calc_jacobian", "eps", lambda H_, v, env: (store.__setitem__("eps", v), v)[1])
        it.hints = H
        try:
            with lazy_safety():
                it.call(it.getattr(S["solver"], "calc_jacobian"), [S["field"]], {})
        except T.EngineError:
            pass
        it.hints = None
        sums = T.cur().ghost.get("sums", [])
        rp = {"fn": "fd_zero_clause", "args": {}}
        for q in range(2):
            if q < len(sums):
                assume(sums[q][2] >= 0)
                watch("meanabs%d" % q, sums[q][2])
            prove("perturbation-nonzero[%d]" % q, T.treal(store["eps"][q]) > 0 if "eps" in store else False, replay=rp,
                  note="for every field, including a component that is identically zero")
    chk.run("fd-step-nonzero", nonzero)

    # ---- amplification factors and orders (pure lemmas) ------------------------------------------------
    def lemmas():
        x, y = z3.Reals("x y")
        assume(x <= 0)
        # |1/(1-z)| <= 1  <=>  |1-z|^2 >= 1 ;  |(1+z/2)/(1-z/2)| <= 1  <=>  |1+z/2|^2 <= |1-z/2|^2   (z = x+iy, x<=0)
        prove("backward-euler-no-growth", (1 - x) * (1 - x) + y * y >= 1)
        prove("crank-nicolson-no-growth", (1 + x / 2) * (1 + x / 2) + y * y / 4 <= (1 - x / 2) * (1 - x / 2) + y * y / 4)
        prove("crank-nicolson-denominator-nonzero", (1 - x / 2) * (1 - x / 2) + y * y / 4 > 0)
    chk.run("lemma/amplification", lemmas)
    F = Fraction
    # R(z) = N(z)/D(z) agrees with exp(z) to order p  <=>  N - D*T_p has no terms up to z^p
    def agree(N, D, p):
        fact = 1
        Tp = []
        for k in range(p + 1):
            if k:
                fact *= k
            Tp.append(F(1, fact))
        prod = [sum(D[i] * Tp[k - i] for i in range(len(D)) if 0 <= k - i <= p) for k in range(p + 1)]
        Np = [N[k] if k < len(N) else F(0) for k in range(p + 1)]
        return all(Np[k] == prod[k] for k in range(p + 1))
    chk.native("lemma/order/backward-euler-first-order", agree([F(1)], [F(1), F(-1)], 1) and not agree([F(1)], [F(1), F(-1)], 2))
    chk.native("lemma/order/crank-nicolson-second-order",
               agree([F(1), F(1, 2)], [F(1), F(-1, 2)], 2) and not agree([F(1), F(1, 2)], [F(1), F(-1, 2)], 3))
    al, be = [F(1, 2), F(-2), F(3, 2)], [F(0), F(0), F(1)]
    chk.native("lemma/order/bdf2-second-order",
               sum(al) == 0 and sum(j * a for j, a in enumerate(al)) == sum(be)
               and sum(j * j * a for j, a in enumerate(al)) == 2 * sum(j * b for j, b in enumerate(be))
               and sum(j ** 3 * a for j, a in enumerate(al)) != 3 * sum(j * j * b for j, b in enumerate(be)))
