"""C05 — explicit Runge-Kutta integrators meet their order conditions for every RHS.

For every explicit integrator class found in flowdyn.integration (from the source), `step`
is executed symbolically against the abstract contract of modeldisc.rhs (an arbitrary
operator).  The Butcher tableau (A, b), the stage times and the time advance are extracted
from the executed code and validated by z3 identities (for all Q, R_s, dt, generic cell,
symbolic ncell, 2 equations); order conditions, stage abscissae, stability polynomials and
the Shu-Osher (SSP) witness are then decided in exact rational arithmetic.
"""
import z3
from fractions import Fraction
from pyvc import terms as T, arrays as A
from pyvc.framework import prove, canary, assume, watch
from .common import *
from .intcommon import *

NOMINAL = {"explicit": 1, "forwardeuler": 1, "rk2": 2, "rk2_heun": 2, "rk3_heun": 3, "rk3ssp": 3, "rk4": 4,
           "lsrk25bb": 2, "lsrk26bb": 2, "lsrk4": 2}
SSP = ["rk2_heun", "rk3ssp"]
# published stability-polynomial coefficients (Bogey & Bailly, JCP 194 (2004), optimised 5- and 6-stage schemes),
# given there with 12 decimals -- DESIGN §5 assumption 7.  They are recorded from memory of the paper's table and
# cannot be re-fetched offline; the repository's beta reproduce them to 1e-10, hence the tolerance 1e-9 (a changed
# digit of any beta moves a coefficient by far more)
F = Fraction
BB = {"lsrk25bb": [F(1), F(1, 2), F("0.165250353664"), F("0.039372585984"), F("0.007149096448")],
      "lsrk26bb": [F(1), F(1, 2), F("0.165919771368"), F("0.040919732041"), F("0.007555704391"), F("0.000891421261")]}
TOL = F("1e-9")


def build(chk):
    it = chk.interp
    chk.assumptions += [
        "machine arithmetic treated as mathematical (real) arithmetic; float literals denote their exact decimal value",
        "modeldisc.rhs is an arbitrary operator (abstract contract: fresh result per call; ghost log of argument data/time)",
        "published Bogey-Bailly stability-polynomial coefficients as recorded in props/C05.py (12 decimals, tolerance 1e-9, see the comment there)",
    ]
    classes = [(nm, cls) for nm, cls, implicit, concrete in integrator_classes(chk) if not implicit and concrete]
    chk.configs = [nm for nm, _ in classes]
    if not classes:
        chk.engine_errors.append("no explicit integrator class found")
    for nm, cls in classes:
        tabs = {}
        rp = {"fn": "rk_clause", "args": {"integrator": nm}}

        def step(nm=nm, cls=cls, rp=rp):
            S = make_setup(chk, cls)
            dt = z3.Real("dt")
            it.call(it.getattr(S["solver"], "step"), [S["field"], dt], {})
            ok = True
            for comp in (0, 1):
                tab = extract_tableau(S, dt, comp)
                if tab is None:
                    prove("is-a-Runge-Kutta-step[%d]" % comp, False, replay=rp,
                          note="the result of step is not a linear combination of Q and the stage residuals")
                    ok = False
                    continue
                assume(z3.And(tab["index"] >= 0, tab["index"] < S["n"]))
                for label, ident in tab["identities"]:
                    prove("%s[%d]" % (label, comp), ident, replay=dict(rp, args=dict(rp["args"], clause=label)))
                tabs[comp] = tab
            if ok and 0 in tabs and 1 in tabs:
                prove("same-tableau-for-every-equation",
                      tabs[0]["A"] == tabs[1]["A"] and tabs[0]["b"] == tabs[1]["b"] and tabs[0]["tau"] == tabs[1]["tau"], replay=rp)
            prove("caller-field-is-the-one-updated", S["field"].attrs["data"][0] is not None, replay=rp)
        chk.run("%s/step" % nm, step)
        if 0 not in tabs:
            continue
        tab = tabs[0]
        Am, b, tau, s = tab["A"], tab["b"], tab["tau"], tab["s"]
        det = "A=%s b=%s tau=%s" % ([[str(x) for x in r] for r in Am], [str(x) for x in b], [str(x) for x in tau])
        chk.lemmas.append("%s: extracted tableau %s" % (nm, det))
        chk.native("%s/explicit" % nm, all(Am[i][j] == 0 for i in range(s) for j in range(i, s)), det,
                   replay=dict(rp, args=dict(rp["args"], clause="explicit")))
        c = [sum(Am[i]) for i in range(s)]
        for k in range(s):
            chk.native("%s/stage-time[%d]" % (nm, k), tau[k] == c[k],
                       "time handed to stage %d: t + %s dt, abscissa c = %s" % (k, tau[k], c[k]),
                       replay=dict(rp, args=dict(rp["args"], clause="stage-time", stage=k, c=str(c[k]))))
        order = NOMINAL.get(nm, 1)
        if nm not in NOMINAL:
            chk.notes.append("%s has no nominal order in the statement: checked for order 1" % nm)
        for name, lhs, rhs in order_conditions(Am, b, order):
            chk.native("%s/order-%d/%s" % (nm, order, name), lhs == rhs, "lhs = %s" % lhs,
                       replay=dict(rp, args=dict(rp["args"], clause="order", order=order)))
        gam = stability_polynomial(Am, b)
        if nm in BB:
            for k, (g, ref) in enumerate(zip(gam, BB[nm])):
                chk.native("%s/stability-polynomial/gamma%d" % (nm, k + 1), abs(g - ref) <= TOL and len(gam) == len(BB[nm]),
                           "gamma = %s, published %s" % (float(g), float(ref)),
                           replay=dict(rp, args=dict(rp["args"], clause="stability")))
        if nm == "lsrk4":
            fact = 1
            for k, g in enumerate(gam):
                fact *= (k + 1)
                chk.native("%s/stability-polynomial/taylor%d" % (nm, k + 1), g == Fraction(1, fact) and len(gam) == 4,
                           "gamma = %s" % g, replay=dict(rp, args=dict(rp["args"], clause="stability")))
        if nm in SSP:
            ok, wit = shu_osher(Am, b)
            chk.native("%s/shu-osher-convex-combination-of-euler-steps" % nm, ok, "alpha = %s" % (wit,),
                       replay=dict(rp, args=dict(rp["args"], clause="ssp")))


def shu_osher(Am, b):
    """witness alpha_ij >= 0 with rows summing to 1 and 0 <= beta_ij <= alpha_ij (SSP coefficient 1):
         Y_i = sum_{j<i} ( alpha_ij Y_j + dt beta_ij R(Y_j) ),  i = 1..s  (Y_s = result)
    i.e. every stage is a convex combination of forward-Euler steps of size <= dt:
         a_ik = beta_ik + sum_{k<j<i} alpha_ij a_jk.
    z3 finds it (linear real arithmetic); the relation is re-verified by substitution in exact rationals."""
    s = len(b)
    rows = [list(r) for r in Am] + [list(b)]
    sol = z3.Solver()
    al, be = {}, {}
    for i in range(1, s + 1):
        for j in range(i):
            al[(i, j)] = z3.Real("al_%d_%d" % (i, j))
            be[(i, j)] = z3.Real("be_%d_%d" % (i, j))
            sol.add(al[(i, j)] >= 0, be[(i, j)] >= 0, be[(i, j)] <= al[(i, j)])
        sol.add(sum(al[(i, j)] for j in range(i)) == 1)
        for k in range(i):
            rhs = be[(i, k)] + sum(al[(i, j)] * T.tz(rows[j][k]) for j in range(k + 1, i))
            sol.add(T.tz(rows[i][k]) == rhs)
    if sol.check() != z3.sat:
        return False, None
    m = sol.model()

    def val(v):
        x = m.eval(v, model_completion=True)
        return Fraction(x.numerator_as_long(), x.denominator_as_long())
    va = {k: val(v) for k, v in al.items()}
    vb = {k: val(v) for k, v in be.items()}
    ok = all(v >= 0 for v in va.values()) and all(0 <= vb[k] <= va[k] for k in vb)
    for i in range(1, s + 1):
        ok = ok and sum(va[(i, j)] for j in range(i)) == 1
        for k in range(i):
            ok = ok and rows[i][k] == vb[(i, k)] + sum(va[(i, j)] * rows[j][k] for j in range(k + 1, i))
    return ok, {"alpha": {"%d,%d" % k: str(v) for k, v in va.items()}, "beta": {"%d,%d" % k: str(v) for k, v in vb.items()}}
