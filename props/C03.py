"""C03 — uniform and compatible steady states are fixed points.

Chain of contracts (nothing is inlined across a seam):
  (a) leaf: each Euler inlet/outlet condition whose parameters are those of the interior state
      returns that state (both sides, in the condition's regime)           [BC fixed-point clause]
  (b) fvm1d.rhs on uniform data, symbolic ncell, abstract monotone mesh, every reconstruction:
      numflux through its contract (consistency instance), namedBC through the clause of (a);
      every face sees (W,W) => equal fluxes => residual 0 at the seam cells and a generic cell;
      nozzle at rest for any section law (the three geometric sources are multiples of the momentum)
  (c) integrators: R(Q*)=0 => step(Q*,dt)=Q* (normal forms, C05/C06).
"""
import z3
from pyvc import terms as T, arrays as A
from pyvc.framework import prove, canary, assume, watch, lemma, lazy_safety
from pyvc.interp import PyException
from contracts.flux_contract import use_flux_contract
from .common import *
from .C16 import law_mul, law_add, law_exp_eq, law_inv, pos_root, Xfac, ptot_of, rttot_of, a2, R

INLETS = ["insub", "insub_cbc", "insup"]
OUTLETS = ["outsub", "outsub_prim", "outsub_qtot", "outsub_rh", "outsub_nrcbc", "outsup"]


def matched_params(name, g, W):
    """parameters of boundary condition `name` that are those of the state W itself"""
    d = {"type": name}
    if name in ("insub", "insub_cbc", "insup"):
        d["ptot"] = ptot_of(g, W)
        d["rttot"] = rttot_of(g, W)
    if name in ("insup", "outsub", "outsub_prim", "outsub_qtot", "outsub_rh", "outsub_nrcbc"):
        d["p"] = W[2]
    return d


def regime(name, d, g, W):
    """the condition's regime for the uniform state (direction of the flow w.r.t. the boundary)"""
    u = W[1]
    with T.no_safety():
        a = T.treal(T.sqrt(a2(g, W)))
    if name in ("insub", "insup"):
        return -d * u >= 0                       # flow enters the domain
    if name == "insub_cbc":
        return d * u <= a                        # not a supersonic outflow: the '+' root is the state's sound speed
    if name == "outsub_qtot":
        return d * u >= 0                        # flow leaves the domain
    return z3.BoolVal(True)


def power_lemmas(name, d, g, W):
    """lemma instances (Real.rpow_mul / rpow_add / unique positive root) on the Mach factor X of the state"""
    gmu = g - 1
    X = Xfac(g, W)
    u = W[1]
    with T.no_safety():
        a = T.treal(T.sqrt(a2(g, W)))
        su = T.treal(T.sqrt(u * u))
    pos_root(su, z3.If(u >= 0, u, -u))
    if name in ("insub", "insup", "outsub_qtot", "insub_cbc"):
        law_mul(X, g / gmu, gmu / g)
        law_exp_eq(X, (g / gmu) * (gmu / g), z3.RealVal(1))
        law_add(X, 1 / gmu, 1)
        law_exp_eq(X, 1 / gmu + 1, g / gmu)
        assume(R(X, z3.RealVal(1)) == X)
    if name == "insub_cbc":
        with T.no_safety():
            inv = u + d * 2 * a / gmu
            disc = g * (g + 1) / gmu * rttot_of(g, W) - gmu / 2 * inv * inv
            sd = T.treal(T.sqrt(disc))
        pos_root(sd, a - d * u)
    if name == "outsub_rh":
        with T.no_safety():
            T.sqrt(g * W[2] / W[0] * 1)


def _build_own(chk):
    it = chk.interp
    chk.assumptions += [
        "machine arithmetic treated as mathematical (real) arithmetic ('residual zero to round-off')",
        "mesh contract (C20) as hypothesis; flux contract (consistency clause proved in C02) used at the call site",
        "power laws as instantiated lemma instances of Real.rpow_mul / rpow_add; unique positive square root",
        "regimes of the matched inlet/outlet conditions: insub/insup inflow, outsub_qtot outflow, insub_cbc not a "
        "supersonic outflow (others unconditional)",
    ]
    # ---- (a) leaf: matched boundary conditions are the identity --------------------------------
    for name in INLETS + OUTLETS:
        for sname, d in (("dir=-1", -1), ("dir=+1", 1)):
            rp = {"fn": "bc_fixed_point", "args": {"bc": name, "dir": d}}

            def leaf(name=name, d=d, rp=rp):
                m, info = make_model(chk, "euler1d")
                g = info["gamma"]
                watch("gamma", g)
                W = [z3.Real("W0"), z3.Real("W1"), z3.Real("W2")]
                for k, w in enumerate(W):
                    watch("W%d" % k, w)
                assume(z3.And(W[0] > 0, W[2] > 0))
                assume(regime(name, d, g, W))
                power_lemmas(name, d, g, W)
                out = it.call(it.getattr(m, "namedBC"), [name, d, list(W), matched_params(name, g, W)], {})
                for k in range(3):
                    prove("returns-the-state[%d]" % k, T.treal(out[k]) == W[k], replay=rp)
                canary("canary", T.treal(out[0]) == W[0] + 1)
            chk.run("bc-fixed-point/%s/%s" % (name, sname), leaf)

    # ---- (b) space operator on uniform data ----------------------------------------------------
    for kind in ("convection", "burgers", "shallowwater", "euler1d", "nozzle"):
        pairs = [("per", "per"), ("dirichlet", "dirichlet")]
        if kind in ("euler1d", "nozzle"):
            pairs += [(a_, b_) for a_ in INLETS for b_ in OUTLETS]
        quick_pairs = [("per", "per"), ("dirichlet", "dirichlet"), ("insub", "outsub"), ("insub_cbc", "outsub_nrcbc"),
                       ("insup", "outsup")]
        for label, cls, lim in num_configs(chk):
            for bl, br in pairs:
                # quick tier: every reconstruction with representative boundary pairs, every boundary pair with two
                # reconstructions (they interact only through the boundary face states); thorough: full product
                if chk.tier == "quick" and cls not in ("extrapol2", "extrapol1") and (bl, br) not in quick_pairs:
                    continue
                if kind == "nozzle" and (bl, br) not in (("per", "per"), ("dirichlet", "dirichlet"), ("insub", "outsub")):
                    continue        # nozzle shares every function with euler1d except the sources (checked here at rest)
                for ncase in ("n>=3", 1, 2):
                    if chk.tier == "quick" and ncase != "n>=3" and cls not in ("extrapol2", "muscl") :
                        continue
                    cfg = "fvm1d/%s/%s/%s-%s/n=%s" % (kind, label, bl, br, ncase)
                    chk.configs.append(cfg)
                    rp = {"fn": "uniform_clause", "args": {"kind": kind, "num": cls, "limiter": lim, "bcL": bl, "bcR": br}}

                    def op(kind=kind, cls=cls, lim=lim, bl=bl, br=br, ncase=ncase, rp=rp):
                        if ncase == "n>=3":
                            n = z3.Int("n")
                            assume(n >= 3)
                        else:
                            n = ncase
                        mesh = abstract_mesh1d(chk, n)
                        m, info = make_model(chk, kind)
                        g = info.get("gamma")
                        for k in ("gamma", "g", "a"):
                            if k in info:
                                watch(k, info[k])
                        nv = {"convection": 1, "burgers": 1, "shallowwater": 2}.get(kind, 3)
                        W = [z3.Real("W%d" % k) for k in range(nv)]
                        for k, w in enumerate(W):
                            watch("W%d" % k, w)
                        if kind == "shallowwater":
                            assume(W[0] > 0)
                        if kind in ("euler1d", "nozzle"):
                            assume(z3.And(W[0] > 0, W[2] > 0))
                        if kind == "nozzle":
                            assume(W[1] == 0)       # nozzle at rest, any section law
                        bcL, bcR = {"type": bl}, {"type": br}
                        if bl == "dirichlet":
                            bcL["prim"], bcR["prim"] = list(W), list(W)
                        if bl in INLETS:
                            bcL = matched_params(bl, g, W)
                            bcR = matched_params(br, g, W)
                            assume(regime(bl, -1, g, W))
                            assume(regime(br, 1, g, W))
                        num = make_num(chk, cls, limiter=lim)
                        disc = make_disc1d(chk, m, mesh, num, bcL=bcL, bcR=bcR)
                        # uniform conservative data from the definitions
                        if kind in ("convection", "burgers"):
                            Qv = [W[0]]
                        elif kind == "shallowwater":
                            Qv = [W[0], W[0] * W[1]]
                        else:
                            Qv = [W[0], W[0] * W[1], W[2] / (g - 1) + W[0] * W[1] * W[1] / 2]
                        fld = make_field(chk, m, mesh, [A.full(n, q) for q in Qv])
                        bc_contract = BCFixedPoint(g, W) if bl in INLETS else None
                        qn = "flowdyn.modelphy.base::model.namedBC"
                        if bc_contract:
                            it.contracts[qn] = bc_contract
                            it.active_contracts.add(qn)
                        try:
                            with use_flux_contract(it, kind, info, requires=True, opaque=True) as fc:
                                res = it.call(it.getattr(disc, "rhs"), [fld], {})
                        finally:
                            it.active_contracts.discard(qn)
                        if T.is_sym(n):
                            ii = z3.Int("i")
                            assume(z3.And(ii >= 1, ii <= n - 2))
                            cells = [("i=0", 0), ("i=n-1", n - 1), ("interior", ii)]
                        else:
                            cells = [("i=%d" % k, k) for k in range(n)]
                        for nm, i in cells:
                            for f in (i, T.add(i, 1)):
                                fl = "i" if f is i else "i+1"
                                lemma("face-sees-(W,W)/%s/f=%s" % (nm, fl), fc.instance_consistency(f, at_state=W))
                            for k, cn in enumerate(comp_names(kind)):
                                prove("residual-zero/%s[%s]" % (nm, cn), T.treal(res[k].at(i)) == 0, replay=rp)
                        canary("canary", T.treal(res[0].at(cells[0][1])) == 1)
                    chk.run(cfg, op)


class BCFixedPoint:
    """contract of model.namedBC used at the call site in (b); clause proved per condition in (a):
    'for every admissible state S in the regime, bc(dir, S, parameters of S) = S'.  It is
    instantiated at S = the uniform state W: the call site must pass W (hint obligation) and the
    parameter dictionary must be the one built from W (checked syntactically)."""

    def __init__(self, g, W):
        self.g = g
        self.W = W

    def apply(self, interp, f, bound):
        from pyvc.hints import _hint_obligation
        name, d, data, param = bound["name"], bound["dir"], bound["data"], bound["param"]
        g, W = self.g, self.W
        ses = T.cur()
        want = matched_params(name, g, W)
        for k, v in want.items():
            if k == "type":
                continue
            if k not in param or not (T.is_sym(param[k]) and param[k].eq(v)):
                raise T.EngineError("boundary parameters are not those of the uniform state")
        Wd = [T.treal(x) for x in data]
        _hint_obligation("bc-%s-receives-the-uniform-state" % name, z3.And(*[x == w for x, w in zip(Wd, W)]))
        ses.trace.append(("contract", "flowdyn.modelphy.euler::euler1d.bc_" + name))
        return list(W)


def build2d(chk):
    """2-D: a uniform state is a fixed point of fvm2dcart.rhs (generic cell, symbolic nx, ny, lx, ly, kappa) for periodic
    closure at any flow angle and for matched inlet / outlet / wall closures with the flow along the inlet normal.
    numflux through its contract (consistency clause), the inlet/outlet conditions through the derived contract
    'matched 2-D condition with the velocity along the normal returns the state' (= C15 leaf bc/*/one-dimensional/* composed
    with the 1-D fixed-point leaf above); walls and periodic copies are the real code."""
    from .C15 import BC2D, QN_BC, SIDES, xface, yface, bc_value
    from contracts.flux_contract import use_flux_contract
    from pyvc.framework import lazy_safety, lemma
    it = chk.interp
    CLOSURES = {
        # name: (left, right, bottom, top, flow)   flow: 'any' | '+x' | '-x' | '+y' | 'rest'
        "per-per": ("per", "per", "per", "per", "any"),
        "insub-outsub/sym": ("insub", "outsub", "sym", "sym", "+x"),
        "insub-outsub/per": ("insub", "outsub", "per", "per", "+x"),
        "outsub-insub/sym": ("outsub", "insub", "sym", "sym", "-x"),
        "per/insub-outsub": ("per", "per", "insub", "outsub", "+y"),
        "insup-outsup/sym": ("insup", "outsup", "sym", "sym", "+x"),
        "sym-sym/sym-sym": ("sym", "sym", "sym", "sym", "rest"),
    }
    for numname, haskappa in (("extrapol2d1", False), ("extrapol2dk", True)):
        for cname, (bl, br, bb, bt, flow) in CLOSURES.items():
            if chk.tier == "quick" and haskappa and cname not in ("per-per", "insub-outsub/sym", "per/insub-outsub"):
                continue
            cfg = "fvm2dcart/euler2d/%s/%s" % (numname, cname)
            chk.configs.append(cfg)
            rp = {"fn": "uniform2d_clause", "args": {"num": numname, "bc": [bl, br, bb, bt], "flow": flow}}

            def op(numname=numname, haskappa=haskappa, bl=bl, br=br, bb=bb, bt=bt, flow=flow, rp=rp):
                nx, ny = z3.Int("nx"), z3.Int("ny")
                lx, ly = z3.Real("lx"), z3.Real("ly")
                assume(z3.And(nx >= 1, ny >= 1, lx > 0, ly > 0))
                a, b = z3.Int("a"), z3.Int("b")
                assume(z3.And(a >= 0, a < ny, b >= 0, b < nx))
                lemma("index-products", z3.And(a * nx >= 0, (ny - 1 - a) * nx >= 0, (nx - 1) * (ny - 1) >= 0))
                for t in (0, 1, 2):
                    lemma("index-products/a/%d" % t,
                          z3.And(z3.Implies(a >= t, (a - t) * nx >= 0), z3.Implies(a <= t, (t - a) * nx >= 0),
                                 z3.Implies(a <= ny - 1 - t, (ny - 1 - t - a) * nx >= 0),
                                 z3.Implies(a >= ny - 1 - t, (a - (ny - 1 - t)) * nx >= 0)))
                m, info = make_model(chk, "euler2d")
                g = info["gamma"]
                rho, ux, uy, p = z3.Real("W0"), z3.Real("W1"), z3.Real("W2"), z3.Real("W3")
                for k, w in enumerate((rho, ux, uy, p)):
                    watch("W%d" % k, w)
                assume(z3.And(rho > 0, p > 0))
                if flow == "+x":
                    assume(z3.And(ux >= 0, uy == 0))
                elif flow == "-x":
                    assume(z3.And(ux <= 0, uy == 0))
                elif flow == "+y":
                    assume(z3.And(uy >= 0, ux == 0))
                elif flow == "rest":
                    assume(z3.And(ux == 0, uy == 0))
                W = [rho, ux, uy, p]
                bcs = {}
                for side, tag in (("left", bl), ("right", br), ("bottom", bb), ("top", bt)):
                    un = ux if side in ("left", "right") else uy
                    d = dict(matched_params(tag, g, [rho, un, p])) if tag in INLETS + OUTLETS else {"type": tag}
                    d["type"] = tag
                    bcs[side] = d
                mesh = it.call(get(chk, "flowdyn.mesh2d", "mesh2d"), [nx, ny, lx, ly], {})
                num = it.call(get(chk, "flowdyn.xnum", numname), [z3.Real("kappa")] if haskappa else [], {})
                disc = it.call(get(chk, "flowdyn.modeldisc", "fvm2dcart"), [m, mesh, num, bcs], {})
                n = nx * ny
                E = p / (g - 1) + rho * (ux * ux + uy * uy) / 2
                Q = [A.full(n, rho), A.Sym2D([A.full(n, rho * ux), A.full(n, rho * uy)]), A.full(n, E)]
                fld = make_field(chk, m, mesh, Q)
                # inlet / outlet sides through the derived contract, walls by the real code
                bcc = BC2D(real_for=lambda nrm: bcs[[s_ for s_, v in SIDES.items() if tuple(v) == tuple(nrm)][0]]["type"] == "sym")
                it.contracts[QN_BC] = bcc
                it.active_contracts.add(QN_BC)
                try:
                    with use_flux_contract(it, "euler2d", info, clauses=(), requires=False, opaque=True) as fc, lazy_safety():
                        res = it.call(it.getattr(disc, "rhs"), [fld], {})
                finally:
                    it.active_contracts.discard(QN_BC)
                # derived boundary contract: matched condition, velocity along the normal -> the state itself (at the cell's row/column)
                for c in bcc.calls:
                    nrm = [int(T.conc_value(x)) if T.is_sym(x) else int(x) for x in bcc.at(c, 0)[0]]
                    pos = a if nrm[1] == 0 else b
                    _, w_in, w_out = bcc.at(c, pos)
                    un = ux if nrm[1] == 0 else uy
                    ut = uy if nrm[1] == 0 else ux
                    tag = c["name"]
                    dsgn = nrm[0] if nrm[1] == 0 else nrm[1]
                    rel = z3.And(*([x == y for x, y in zip(w_in, W)] + [ut == 0, regime(tag, dsgn, g, [rho, un, p])]))
                    T.cur().add_fact(z3.Implies(rel, z3.And(*[x == y for x, y in zip(w_out, W)])))
                    lemma("boundary-sees-the-uniform-state/%s" % tag, z3.And(*[x == y for x, y in zip(w_in, W)]))
                names = ("rho", "ux", "uy", "p")
                for fname, fidx in (("x0", xface(nx, a, b)), ("x1", xface(nx, a, b + 1)), ("y0", yface(nx, ny, a, b)), ("y1", yface(nx, ny, a + 1, b))):
                    args = fc.last["args_at"](fidx)
                    for j, x in enumerate(args[:8]):
                        lemma("face-states/%s/%s[%s]" % (fname, "L" if j < 4 else "R", names[j % 4]), x == W[j % 4])
                    lemma("face-sees-the-uniform-state/%s" % fname, fc.instance_consistency(fidx, at_state=W))
                rf = flat_at(res, a * nx + b)
                for k, cn in enumerate(comp_names("euler2d")):
                    prove("residual-vanishes[%s]" % cn, rf[k] == 0, replay=rp)
                canary("canary", rf[0] == 1)
            chk.run(cfg, op)


def build(chk):
    _build_own(chk)
    build2d(chk)
    from . import C15
    chk.include(C15, r"^bc/(insub|insup|outsub|outsup|sym)/one-dimensional/", "uses:C15")
    from . import C20
    chk.include(C20, r".", "uses:C20")          # the mesh contract
    # the integrator half of the statement (R(Q*) = 0 => step(Q*) = Q*): normal forms of the explicit integrators, linear
    # systems and finite-difference Jacobian of the implicit family (incl. a conserved component that vanishes identically)
    from . import C05, C06
    chk.include(C05, r".", "uses:C05")
    chk.include(C06, r"^size\(n=2,neq=[12]\)/|^fd-step", "uses:C06")
    # the flux consistency clause the zero-residual argument instantiates (every registered flux, C02)
    from . import C02
    chk.include(C02, r"/consistency$", "uses:C02")
