"""shared harness for the time integrators: abstract right-hand side, abstract field, normal form.

`modeldisc.rhs` is replaced by its abstract contract: an arbitrary operator (any model /
discretisation, linear or not): each call returns fresh result arrays and logs, as ghost
state, the data and the time of the field it was given.  After `step`, the new field data at
a generic cell index is a z3 term over Q(i), the R_s(i) and dt; the Runge-Kutta normal form
    Q' = Q + dt * sum_s b_s R_s ,   Y_s = Q + dt * sum_j a_sj R_j ,   time_s = t + tau_s dt
is EXTRACTED from that term (coefficients by substitution, exact rationals) and then VERIFIED
by z3 as an identity for all values -- nothing about the tableau is pinned in /verif.
"""
import z3
from fractions import Fraction
from pyvc import terms as T, arrays as A
from pyvc.framework import prove, canary, assume, watch, lemma
from pyvc.interp import PyObj, PyClass, UserFunc
from .common import *


class AbstractRHS:
    """ghost log of the calls of modeldisc.rhs"""

    def __init__(self, neq, n, linear=None):
        self.neq, self.n = neq, n
        self.calls = []       # dicts: data (list of snapshot at-functions), time, R (list of arrays)
        self.linear = linear  # optional: R(Y) = A Y as an uninterpreted LINEAR operator (C06)

    def __call__(self, field):
        data = field.attrs["data"]
        snaps = [d._snapshot_at() for d in data]
        k = len(self.calls)
        Rs = [A.input_array("R%d_%d" % (k, q), self.n) for q in range(self.neq)]
        self.calls.append({"data": snaps, "time": field.attrs["time"], "R": Rs, "field": field,
                           "Ruf": [r.uf for r in Rs]})      # the arrays may be mutated in place by the caller
        return [r for r in Rs]


def fake_model(chk, neq=2, islinear=0):
    cls = get(chk, "flowdyn.modelphy.base", "model")
    m = PyObj(cls)
    m.attrs.update({"neq": neq, "shape": [1] * neq, "islinear": islinear, "equation": "abstract", "source": None})
    return m


def fake_mesh(chk, n):
    m = PyObj(get(chk, "flowdyn.meshbase", "virtualmesh"))
    m.attrs.update({"ncell": n, "_type": "abstract"})
    return m


def fake_disc(chk, model, mesh, rhs):
    d = PyObj(get(chk, "flowdyn.modeldisc", "base"))
    d.attrs.update({"model": model, "mesh": mesh, "neq": model.attrs["neq"], "nelem": mesh.attrs["ncell"],
                    "rhs": UserFunc("rhs", rhs)})
    return d


def integrator_classes(chk):
    """every class of flowdyn.integration deriving from timemodel, from the source"""
    mod = chk.interp.load("flowdyn.integration")
    tm = mod.env.vars["timemodel"]
    impl = mod.env.vars["implicitmodel"]
    out = []
    for nm, v in mod.env.vars.items():
        if isinstance(v, PyClass) and v is not tm and v.issubclass(tm):
            has_step = any("step" in c.attrs for c in v.mro() if c is not tm)
            abstract = nm in ("rkmodel", "LSrkmodelHH", "implicitmodel")
            out.append((nm, v, v.issubclass(impl), has_step and not abstract))
    return out


def make_setup(chk, cls, neq=2, n=None, islinear=0, t0=None, rhs=None):
    it = chk.interp
    n = z3.Int("n") if n is None else n
    if T.is_sym(n):
        assume(n >= 1)
    model = fake_model(chk, neq, islinear)
    mesh = fake_mesh(chk, n)
    rhs = rhs or AbstractRHS(neq, n)
    disc = fake_disc(chk, model, mesh, rhs)
    solver = it.call(cls, [mesh, disc], {})
    Q = [A.input_array("Q%d" % q, n) for q in range(neq)]
    t0 = z3.Real("t0") if t0 is None else t0
    fld = make_field(chk, model, mesh, Q, t=t0)
    return dict(model=model, mesh=mesh, disc=disc, solver=solver, Q=Q, field=fld, rhs=rhs, n=n, t0=t0)


def coefficient(term, atom, others, dtsym=None):
    """coefficient of `atom` in a term that is (claimed to be) linear in the atoms: the value of the
    term with atom=1 and all other atoms 0, minus its value with all atoms 0 (dt set to 1)"""
    subs0 = [(a, z3.RealVal(0)) for a in others + [atom]]
    subs1 = [(a, z3.RealVal(0)) for a in others] + [(atom, z3.RealVal(1))]
    if dtsym is not None:
        subs0.append((dtsym, z3.RealVal(1)))
        subs1.append((dtsym, z3.RealVal(1)))
    v0 = z3.simplify(z3.substitute(term, *subs0))
    v1 = z3.simplify(z3.substitute(term, *subs1))
    d = z3.simplify(v1 - v0)
    c = T.conc_value(d)
    if c is None:
        return None
    return Fraction(c)


def extract_tableau(setup, dt, comp=0):
    """returns dict(A, b, tau, ok_terms) extracted from the executed step; `ok_terms` are the z3
    identities that validate the extraction (to be proved)"""
    i = z3.Int("i")
    n = setup["n"]
    calls = setup["rhs"].calls
    s = len(calls)
    Qi = T.treal(setup["Q"][comp].at(i))
    atoms = [c["Ruf"][comp](i) for c in calls]
    t0 = setup["t0"]
    identities = []
    Arows, taus = [], []
    for k, c in enumerate(calls):
        Yk = T.treal(c["data"][comp](i))
        row = []
        for j in range(s):
            cf = coefficient(Yk, atoms[j], [a for a in atoms if a is not atoms[j]] + [Qi], dt)
            row.append(cf)
        if any(x is None for x in row):
            return None
        Arows.append(row)
        want = Qi + dt * sum(T.tz(row[j]) * atoms[j] for j in range(s))
        identities.append(("stage-%d-is-RK-form" % k, Yk == want))
        tk = T.treal(c["time"])
        ct = coefficient(tk, dt, [t0])
        if ct is None:
            return None
        taus.append(ct)
        identities.append(("stage-%d-time-is-affine" % k, tk == t0 + T.tz(ct) * dt))
    Qn = T.treal(setup["field"].attrs["data"][comp].at(i))
    b = []
    for j in range(s):
        cf = coefficient(Qn, atoms[j], [a for a in atoms if a is not atoms[j]] + [Qi], dt)
        b.append(cf)
    if any(x is None for x in b):
        return None
    identities.append(("result-is-RK-form", Qn == Qi + dt * sum(T.tz(b[j]) * atoms[j] for j in range(s))))
    tn = T.treal(setup["field"].attrs["time"])
    identities.append(("time-advances-by-dt", tn == t0 + dt))
    return {"A": Arows, "b": b, "tau": taus, "identities": identities, "index": i, "s": s}


def order_conditions(Am, b, order):
    """rooted-tree order conditions up to `order` in exact rationals: list of (name, lhs, rhs)"""
    s = len(b)
    c = [sum(Am[i]) for i in range(s)]
    F = Fraction
    out = [("sum b = 1", sum(b), F(1))]
    if order >= 2:
        out.append(("sum b c = 1/2", sum(b[i] * c[i] for i in range(s)), F(1, 2)))
    if order >= 3:
        out.append(("sum b c^2 = 1/3", sum(b[i] * c[i] ** 2 for i in range(s)), F(1, 3)))
        out.append(("sum b A c = 1/6", sum(b[i] * Am[i][j] * c[j] for i in range(s) for j in range(s)), F(1, 6)))
    if order >= 4:
        out.append(("sum b c^3 = 1/4", sum(b[i] * c[i] ** 3 for i in range(s)), F(1, 4)))
        out.append(("sum b c A c = 1/8", sum(b[i] * c[i] * Am[i][j] * c[j] for i in range(s) for j in range(s)), F(1, 8)))
        out.append(("sum b A c^2 = 1/12", sum(b[i] * Am[i][j] * c[j] ** 2 for i in range(s) for j in range(s)), F(1, 12)))
        out.append(("sum b A A c = 1/24", sum(b[i] * Am[i][j] * Am[j][k] * c[k]
                                              for i in range(s) for j in range(s) for k in range(s)), F(1, 24)))
    return out


def stability_polynomial(Am, b):
    """coefficients gamma_k = b^T A^(k-1) 1, k=1..s of the stability polynomial 1 + sum gamma_k z^k"""
    s = len(b)
    v = [Fraction(1)] * s
    out = []
    for k in range(s):
        out.append(sum(b[i] * v[i] for i in range(s)))
        v = [sum(Am[i][j] * v[j] for j in range(s)) for i in range(s)]
    return out
