"""Harness for timemodel._solve (C07/C08): loop-invariant rule applied to the real loop bodies.

The statements of `_solve` are taken from the ast of the real source and executed in pieces:
  prologue (everything before the main `while not checkend`), one GENERIC iteration of the main
  loop from an arbitrary state satisfying the invariant, and -- when the saving logic is itself a
  loop -- one generic iteration of that inner loop.  `step` and `calc_timestep` are used through
  their contracts (abstract integrator / discretisation); every call is logged as ghost state.
"""
import ast
import z3
from pyvc import terms as T, arrays as A
from pyvc.framework import prove, canary, assume, watch, lemma
from pyvc.interp import PyObj, UserFunc, Env, BoundMethod
from .common import *
from .intcommon import fake_model, fake_mesh, fake_disc

SOLVE_CTX = "integration.timemodel._solve"


def solve_fragments(chk):
    mod = chk.interp.load("flowdyn.integration")
    fn = mod.env.vars["timemodel"].attrs["_solve"]
    body = fn.node.body
    idx = [k for k, st in enumerate(body) if isinstance(st, ast.While)]
    if len(idx) != 2:
        raise T.EngineError("_solve: expected the skip loop and the main loop, found %d while loops" % len(idx))
    skip, main = body[idx[0]], body[idx[1]]
    inner = [k for k, st in enumerate(main.body) if isinstance(st, ast.While)]
    return {"fn": fn, "pre": body[:idx[1]], "skip": skip, "main": main, "post": body[idx[1] + 1:],
            "inner_index": inner[0] if inner else None}


class StepContract:
    """contract of integrator.step(field, dt): requires dt >= 0 (dt > 0 for the implicit family:
    1/dt is formed); ensures field.time' = field.time + min(dt), data' = fresh values; modifies the
    field passed and the solver's scratch state only.  Proved for every integrator in C05/C06.
    Calls are logged (ghost)."""

    def __init__(self, n, neq, positive=False, label="step"):
        self.n, self.neq, self.positive = n, neq, positive
        self.calls = []

    def __call__(self, field, dt):
        from pyvc import npmodel
        t = field.attrs["time"]
        m = npmodel.array_min(dt) if isinstance(dt, A.SymArray) else dt
        k = len(self.calls)
        self.calls.append({"field": field, "dt": dt, "mindt": m, "time_before": t, "pc": list(T.cur().pc)})
        field.attrs["time"] = T.add(t, m)
        field.attrs["data"] = [A.input_array("stepped%d_%d" % (k, q), self.n) for q in range(self.neq)]
        return None


def skip_loop_handler(frag):
    """summary of the loop that skips the save times before the start time, justified by its
    shape (body `isave += 1`, test `isave < nsave and Qn.time > tsave[isave]`): the invariant
    0<=isave<=nsave and tsave[j] < t for j<isave is preserved by construction"""
    def handler(interp, st, env):
        if st is not frag["skip"]:
            raise T.EngineError("unexpected while loop with symbolic condition at line %d" % st.lineno)
        ok = len(st.body) == 1 and isinstance(st.body[0], ast.AugAssign) and isinstance(st.body[0].target, ast.Name) \
            and st.body[0].target.id == "isave" and isinstance(st.body[0].op, ast.Add) \
            and isinstance(st.body[0].value, ast.Constant) and st.body[0].value.value == 1 \
            and ast.unparse(st.test).replace(" ", "") == "isave<nsaveandself.Qn.time>tsave[isave]"
        if not ok:
            raise T.EngineError("the save-time skip loop changed shape: no summary available")
        ses = T.cur()
        k0 = ses.fresh("isave0", "Int")
        nsave = env.lookup("nsave")
        tsave = env.lookup("tsave")
        t = T.treal(interp.getattr(interp.getattr(env.lookup("self"), "Qn"), "time"))
        ses.add_fact(z3.And(k0 >= 0, k0 <= T.tz(nsave)))
        ses.add_fact(z3.Implies(k0 < T.tz(nsave), T.treal(tsave.at(k0)) >= t))
        ses.ghost["skip"] = {"k0": k0, "t": t, "tsave": tsave}
        env.vars["isave"] = k0
    return handler


def skipped_are_before_start(j):
    """instance of the skip loop's invariant: save times with index below isave0 are before the start"""
    g = T.cur().ghost["skip"]
    assume(z3.Implies(z3.And(j >= 0, j < g["k0"]), T.treal(g["tsave"].at(j)) < g["t"]))


def make_driver(chk, n=None, neq=1, positive=False, integrator="explicit"):
    it = chk.interp
    n = z3.Int("n") if n is None else n
    assume(n >= 1)
    model = fake_model(chk, neq)
    mesh = fake_mesh(chk, n)
    disc = fake_disc(chk, model, mesh, lambda f: None)
    dtarr = A.input_array("dtloc", n)
    uf = dtarr.uf
    dtarr.inv = lambda i: uf(T.tz(i)) > 0          # contract of calc_timestep (C18): positive per-cell steps
    ts_calls = []

    def calc_timestep(f, cond):
        ts_calls.append((f, cond))
        return dtarr
    disc.attrs["calc_timestep"] = UserFunc("calc_timestep", calc_timestep)
    cls = get(chk, "flowdyn.integration", integrator)
    solver = it.call(cls, [mesh, disc], {})
    step = StepContract(n, neq, positive)
    solver.attrs["step"] = UserFunc("step", step)
    return dict(model=model, mesh=mesh, disc=disc, solver=solver, step=step, dtarr=dtarr, n=n, neq=neq, ts_calls=ts_calls)


def new_field(chk, D, name, t):
    data = [A.input_array("%s%d" % (name, q), D["n"]) for q in range(D["neq"])]
    f = make_field(chk, D["model"], D["mesh"], data, t=t)
    return f


def frag_env(frag, vars):
    env = Env(frag["fn"].env, dict(vars))
    env.vars["__defclass__"] = "timemodel"
    return env


def exec_fragment(chk, frag, stmts, env):
    it = chk.interp
    T._safety_ctx.append(SOLVE_CTX)
    old = (getattr(it, "_cur_module", None), getattr(it, "_cur_class", None))
    it._cur_module, it._cur_class = frag["fn"].module, "timemodel"
    try:
        it.exec_block(stmts, env)
    finally:
        it._cur_module, it._cur_class = old
        T._safety_ctx.pop()


def stop_variants():
    return [("default", None), ("maxit", ["maxit"]), ("tottime", ["tottime"]), ("both", ["maxit", "tottime"])]


def make_stop(kinds):
    if kinds is None:
        return None
    d = {}
    if "maxit" in kinds:
        d["maxit"] = z3.Int("maxit")
        assume(d["maxit"] >= 1)
    if "tottime" in kinds:
        d["tottime"] = z3.Real("tottime")
    return d
