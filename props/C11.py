"""C11 — reconstructions exact for linear data; linear schemes match the kappa stencil.

The real pipeline pieces (cons2prim, calc_grad, calc_bc_grad, interp_face, and for the stencil
the whole fvm1d.rhs) are executed symbolically with a symbolic number of cells on (a) an
abstract mesh with arbitrary strictly increasing faces (exactness clauses) and (b) the real
uniform mesh constructor (stencil clause).  All reconstructions exported by xnum are
enumerated, MUSCL with every limiter.
"""
import z3
from fractions import Fraction
from pyvc import terms as T, arrays as A
from pyvc.framework import prove, canary, assume, watch, lemma
from .common import *

EPS = Fraction(1, 10 ** 20)
LOW = Fraction(1, 10 ** 8)


def faces_after_interp(chk, disc, field):
    """what fvm1d.rhs does up to interp_face (same calls, same order)"""
    it = chk.interp
    disc.attrs["field"] = field
    disc.attrs["qdata"] = [d.copy() for d in field.attrs["data"]]
    for meth in ("cons2prim", "calc_grad", "calc_bc_grad", "interp_face"):
        it.call(it.getattr(disc, meth), [], {})
    return disc.attrs["pL"][0], disc.attrs["pR"][0]


def _build1d(chk):
    it = chk.interp
    chk.assumptions += [
        "machine arithmetic treated as mathematical (real) arithmetic",
        "mesh contract (proved in C20) as hypothesis for the exactness clauses: ncell+1 strictly increasing faces, centres "
        "at midpoints, length = xf[n]-xf[0]",
        "MUSCL with the two regularised limiters reproduces a linear profile up to the relative 1e-20/slope^2 (+4 unit "
        "round-offs) of C12, for |slope| >= 1e-8 or slope 0; faces next to a boundary closure are excluded (periodic "
        "closure too: a linear profile is not periodic, DESIGN §6 C11)",
    ]
    cfgs = num_configs(chk)
    for label, cls, lim in cfgs:
        for bc in ("per", "dirichlet"):
            cfg = "%s/%s" % (label, bc)
            chk.configs.append(cfg)
            rp = {"fn": "recon_clause", "args": {"num": cls, "limiter": lim, "bc": bc}}

            def recon(cls=cls, lim=lim, bc=bc, rp=rp, label=label):
                n = z3.Int("n")
                assume(n >= 1)
                watch("n", n)
                mesh = abstract_mesh1d(chk, n)
                m, info = make_model(chk, "convection")
                num = make_num(chk, cls, limiter=lim)
                if cls == "extrapolk":
                    watch("kappa", num.attrs["kprec"])
                bcd = {"type": bc}
                if bc == "dirichlet":
                    bcd["prim"] = [z3.Real("bcval")]
                disc = make_disc1d(chk, m, mesh, num, bcL=bcd, bcR=dict(bcd))
                xf, xc = mesh.attrs["xf"], mesh.attrs["xc"]
                f = z3.Int("f")
                watch("f", f)
                # --- constant data
                c = z3.Real("cst")
                fld = make_field(chk, m, mesh, [A.full(n, c)])
                L, R = faces_after_interp(chk, disc, fld)
                prove("shape", z3.And(T.tz(T.eq(L.length, n + 1)), T.tz(T.eq(R.length, n + 1))), replay=rp)
                prove("constant/left-state", z3.Implies(z3.And(f >= 1, f <= n), T.treal(L.at(f)) == c),
                      replay=dict(rp, args=dict(rp["args"], clause="constant")))
                prove("constant/right-state", z3.Implies(z3.And(f >= 0, f <= n - 1), T.treal(R.at(f)) == c),
                      replay=dict(rp, args=dict(rp["args"], clause="constant")))
                # --- extrapol1 returns the adjacent cell values for any data
                if cls == "extrapol1":
                    d = A.input_array("d", n)
                    fld = make_field(chk, m, mesh, [d])
                    L, R = faces_after_interp(chk, disc, fld)
                    prove("adjacent/left", z3.Implies(z3.And(f >= 1, f <= n), T.treal(L.at(f)) == T.treal(d.at(f - 1))),
                          replay=dict(rp, args=dict(rp["args"], clause="adjacent")))
                    prove("adjacent/right", z3.Implies(z3.And(f >= 0, f <= n - 1), T.treal(R.at(f)) == T.treal(d.at(f))),
                          replay=dict(rp, args=dict(rp["args"], clause="adjacent")))
                    return
                # --- linear data on an arbitrary monotone mesh
                al, be = z3.Real("alpha"), z3.Real("beta")
                watch("alpha", al)
                watch("beta", be)
                xcat = xc.at
                lin = A.SymArray(n, lambda i: T.add(T.mul(al, xcat(i)), be), name="linear")
                fld = make_field(chk, m, mesh, [lin])
                L, R = faces_after_interp(chk, disc, fld)
                exact = al * T.treal(xf.at(f)) + be
                if cls == "muscl":
                    assume(z3.Or(al == 0, zabs(al) >= T.tz(LOW)))
                    rel = z3.If(al == 0, z3.RealVal(0), T.tz(EPS) / (al * al) + 4 * T.tz(U))
                    tolL = zabs(al) * zabs(T.treal(xf.at(f)) - T.treal(xc.at(f - 1))) * rel
                    tolR = zabs(al) * zabs(T.treal(xf.at(f)) - T.treal(xc.at(f))) * rel
                    gL = zabs(T.treal(L.at(f)) - exact) <= tolL
                    gR = zabs(T.treal(R.at(f)) - exact) <= tolR
                else:
                    gL = T.treal(L.at(f)) == exact
                    gR = T.treal(R.at(f)) == exact
                # faces whose two adjacent gradients are interior ones
                prove("linear/left-state", z3.Implies(z3.And(f >= 2, f <= n - 1), gL),
                      replay=dict(rp, args=dict(rp["args"], clause="linear")))
                prove("linear/right-state", z3.Implies(z3.And(f >= 1, f <= n - 2), gR),
                      replay=dict(rp, args=dict(rp["args"], clause="linear")))
                canary("canary", z3.Implies(z3.And(f >= 2, f <= n - 1), T.treal(L.at(f)) == exact + 1))
            chk.run(cfg, recon)

    # --- kappa values of the named schemes (statement: extrapol2=-1, fromm=0, quick=1/2, extrapol3=1/3, centered=1)
    def kappas():
        for nm, kv in KAPPA.items():
            num = make_num(chk, nm)
            if nm == "extrapol2":
                continue    # written out separately in the source: its stencil is compared with kappa=-1 below
            prove("kappa/%s" % nm, T.eq(num.attrs["kprec"], kv) is True or T.eq(num.attrs["kprec"], kv),
                  replay={"fn": "kappa_clause", "args": {"num": nm, "kappa": str(kv)}})
    chk.run("kappa-literals", kappas)

    # --- stencil of linear convection on the real uniform periodic mesh
    for label, cls in [("extrapolk", "extrapolk"), ("extrapol2", "extrapol2"), ("extrapol1", "extrapol1")] + \
                      [(k, k) for k in ("centered", "fromm", "quick", "extrapol3")]:
        for sgn in ("a>0", "a<0"):
            for ncase in ("n>=5", 1, 2, 3, 4):
                cfg = "stencil/%s/%s/n=%s" % (label, sgn, ncase)
                rp = {"fn": "stencil_clause", "args": {"num": cls, "sign": sgn}}

                def stencil(cls=cls, sgn=sgn, ncase=ncase, rp=rp):
                    if ncase == "n>=5":
                        n = z3.Int("n")
                        assume(n >= 5)
                    else:
                        n = ncase
                    watch("n", n)
                    Lg, x0 = z3.Real("L"), z3.Real("x0")
                    assume(Lg > 0)
                    mesh = it.call(get(chk, "flowdyn.mesh", "unimesh"), [], {"ncell": n, "length": Lg, "x0": x0})
                    m, info = make_model(chk, "convection")
                    a = info["a"]
                    assume(a > 0 if sgn == "a>0" else a < 0)
                    watch("a", a)
                    num = make_num(chk, cls)
                    if cls == "extrapol1":
                        kap = None
                    elif cls == "extrapol2":
                        kap = z3.RealVal(-1)
                    else:
                        kap = T.treal(num.attrs["kprec"])
                        watch("kappa", kap)
                    disc = make_disc1d(chk, m, mesh, num)
                    u = A.input_array("u", n)
                    fld = make_field(chk, m, mesh, [u])
                    res = it.call(it.getattr(disc, "rhs"), [fld], {})
                    r0 = res[0]
                    prove("shape", T.eq(r0.length, n), replay=rp)
                    dx = Lg / T.treal(n)

                    def w(j):       # periodic wrap of a cell index in [-n, 2n)
                        j = T.simp(j) if T.is_sym(j) else j
                        if not T.is_sym(j) and not T.is_sym(n):
                            return j % n
                        return T.simp(T.ite(T.lt(j, 0), T.add(j, n), T.ite(T.ge(j, n), T.sub(j, n), j)))

                    def uu(j):
                        return T.treal(u.at(w(j)))

                    def ustar(j):
                        """van Leer kappa face value at face j+1/2 taken on the upwind side"""
                        if sgn == "a>0":
                            c, up, dn = j, j - 1, j + 1
                        else:
                            c, up, dn = j + 1, j + 2, j
                        if kap is None:
                            return uu(c)
                        return uu(c) + ((1 - kap) * (uu(c) - uu(up)) + (1 + kap) * (uu(dn) - uu(c))) / 4
                    if T.is_sym(n):
                        ii = z3.Int("i")
                        assume(z3.And(ii >= 2, ii <= n - 3))
                        # exhaustive cases: the four seam cells and a generic interior cell
                        idxs = [("i=0", 0), ("i=1", 1), ("i=n-2", n - 2), ("i=n-1", n - 1), ("interior", ii)]
                    else:
                        idxs = [("i=%d" % k, k) for k in range(n)]
                    for nm, i in idxs:
                        watch("i", i)
                        want = -(a / dx) * (ustar(i) - ustar(i - 1))
                        prove("stencil/%s" % nm, T.treal(r0.at(i)) == want, replay=rp)
                chk.run(cfg, stencil)


def build2d(chk):
    """2-D: along each grid direction the face states of extrapol2dk(kappa) on the periodic Cartesian grid are the kappa-scheme
    states  u_i +- [(1-kappa)/4 (backward difference) + (1+kappa)/4 (forward difference)]  of the cells of that row / column
    (with periodic wrap), for every primitive component -- the 2-D counterpart of the 1-D stencil clause; extrapol2d1 returns the
    adjacent cell values.  Generic cell, symbolic nx, ny >= 1, kappa."""
    from .C15 import C2PContract, cons_arrays, xface, yface, QN_C2P
    from contracts.flux_contract import use_flux_contract
    from pyvc.framework import lazy_safety
    it = chk.interp
    for numname, haskappa in (("extrapol2d1", False), ("extrapol2dk", True)):
        cfg = "fvm2dcart/%s/face-states" % numname
        chk.configs.append(cfg)
        rp = {"fn": "kappa2d_clause", "args": {"num": numname}}

        def st(numname=numname, haskappa=haskappa, rp=rp):
            nx, ny = z3.Int("nx"), z3.Int("ny")
            lx, ly = z3.Real("lx"), z3.Real("ly")
            assume(z3.And(nx >= 1, ny >= 1, lx > 0, ly > 0))
            a, b = z3.Int("a"), z3.Int("b")
            assume(z3.And(a >= 0, a < ny, b >= 0, b < nx))
            lemma("index-products", z3.And(a * nx >= 0, (ny - 1 - a) * nx >= 0, (nx - 1) * (ny - 1) >= 0))
            for t in (0, 1, 2, 3):
                lemma("index-products/a/%d" % t,
                      z3.And(z3.Implies(a >= t, (a - t) * nx >= 0), z3.Implies(a <= t, (t - a) * nx >= 0),
                             z3.Implies(a <= ny - 1 - t, (ny - 1 - t - a) * nx >= 0),
                             z3.Implies(a >= ny - 1 - t, (a - (ny - 1 - t)) * nx >= 0)))
            mesh = it.call(get(chk, "flowdyn.mesh2d", "mesh2d"), [nx, ny, lx, ly], {})
            m, info = make_model(chk, "euler2d")
            kap = z3.Real("kappa")
            num = it.call(get(chk, "flowdyn.xnum", numname), [kap] if haskappa else [], {})
            per = {"type": "per"}
            disc = it.call(get(chk, "flowdyn.modeldisc", "fvm2dcart"), [m, mesh, num, {"left": per, "right": per, "bottom": per, "top": per}], {})
            n = nx * ny
            Q = cons_arrays(n)
            fld = make_field(chk, m, mesh, Q)
            it.contracts[QN_C2P] = C2PContract()
            it.active_contracts.add(QN_C2P)
            try:
                with use_flux_contract(it, "euler2d", info, clauses=(), requires=False, opaque=True) as fc, lazy_safety():
                    it.call(it.getattr(disc, "rhs"), [fld], {})
            finally:
                it.active_contracts.discard(QN_C2P)
            pd = [disc.attrs["pdata"][0], disc.attrs["pdata"][1].rows[0], disc.attrs["pdata"][1].rows[1], disc.attrs["pdata"][2]]
            prv = lambda v, N: z3.If(v >= 1, v - 1, N - 1)
            nxt = lambda v, N: z3.If(v <= N - 2, v + 1, 0)
            km, kp = ((1 - kap) / 4, (1 + kap) / 4) if haskappa else (0, 0)
            names = ("rho", "ux", "uy", "p")

            def P(k, r, c):
                return T.treal(pd[k].at(T.simp(r * nx + c)))
            # x-direction: the face on the left of cell (a, b): left state from cell (a, b-1), right state from cell (a, b)
            argsx = fc.last["args_at"](xface(nx, a, b))
            bm, bmm, bp = prv(b, nx), prv(prv(b, nx), nx), nxt(b, nx)
            for k in range(4):
                wantL = P(k, a, bm) + km * (P(k, a, bm) - P(k, a, bmm)) + kp * (P(k, a, b) - P(k, a, bm))
                wantR = P(k, a, b) - km * (P(k, a, bp) - P(k, a, b)) - kp * (P(k, a, b) - P(k, a, bm))
                prove("along-x/left-state-is-the-kappa-state[%s]" % names[k], argsx[k] == wantL, replay=rp)
                prove("along-x/right-state-is-the-kappa-state[%s]" % names[k], argsx[4 + k] == wantR, replay=rp)
            # y-direction: the face below cell (a, b)
            argsy = fc.last["args_at"](yface(nx, ny, a, b))
            am, amm, ap = prv(a, ny), prv(prv(a, ny), ny), nxt(a, ny)
            for k in range(4):
                wantL = P(k, am, b) + km * (P(k, am, b) - P(k, amm, b)) + kp * (P(k, a, b) - P(k, am, b))
                wantR = P(k, a, b) - km * (P(k, ap, b) - P(k, a, b)) - kp * (P(k, a, b) - P(k, am, b))
                prove("along-y/left-state-is-the-kappa-state[%s]" % names[k], argsy[k] == wantL, replay=rp)
                prove("along-y/right-state-is-the-kappa-state[%s]" % names[k], argsy[4 + k] == wantR, replay=rp)
            canary("canary", argsx[0] == argsx[0] + 1)
        chk.run(cfg, st)


def build(chk):
    _build1d(chk)
    build2d(chk)
    from . import C20
    chk.include(C20, r".", "uses:C20")          # the mesh contract the exactness clauses are stated over
