"""helpers shared by the property modules"""
import z3
from fractions import Fraction
from pyvc import terms as T, arrays as A
from pyvc.framework import prove, canary, assume, watch
from pyvc.interp import PyFunc, PyClass, PyObj, BoundMethod, UserFunc

U = Fraction(1, 2 ** 53)          # unit round-off
DBL_MAX = Fraction(17976931348623157) * Fraction(10) ** 292


def Q(s):
    return Fraction(s)


def mod(chk, name):
    return chk.interp.load(name)


def get(chk, modname, attr):
    return chk.interp.load(modname).env.vars[attr]


def call(chk, f, *args, **kw):
    return chk.interp.call(f, list(args), kw)


def method(chk, obj, name):
    return chk.interp.getattr(obj, name)


def zabs(x):
    return z3.If(x >= 0, x, -x)


def zmin(a, b):
    return z3.If(a <= b, a, b)


def zmax(a, b):
    return z3.If(a >= b, a, b)
