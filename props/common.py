"""helpers shared by the property modules"""
import z3
from fractions import Fraction
from pyvc import terms as T, arrays as A
from pyvc.framework import prove, canary, assume, watch
from pyvc.interp import PyFunc, PyClass, PyObj, BoundMethod, UserFunc

U = Fraction(1, 2 ** 53)          # unit round-off
DBL_MAX = Fraction(17976931348623157) * Fraction(10) ** 292


def Q(s):
    return Fraction(s)


def mod(chk, name):
    return chk.interp.load(name)


def get(chk, modname, attr):
    return chk.interp.load(modname).env.vars[attr]


def call(chk, f, *args, **kw):
    return chk.interp.call(f, list(args), kw)


def method(chk, obj, name):
    return chk.interp.getattr(obj, name)


def zabs(x):
    return z3.If(x >= 0, x, -x)


def zmin(a, b):
    return z3.If(a <= b, a, b)


def zmax(a, b):
    return z3.If(a >= b, a, b)


# --------------------------------------------------------------------------------------
# models, admissible symbolic states, physical fluxes (written from the equations)

MODEL_KINDS = ["convection", "burgers", "shallowwater", "euler1d", "nozzle", "euler2d"]


def section_law(const=False):
    """abstract positive section law A(x) (uninterpreted), elementwise on arrays"""
    Af = z3.Function("Asec", z3.RealSort(), z3.RealSort())
    if const:
        A0 = z3.Real("A0")

        def claw(x):
            T.cur().add_fact(A0 > 0)
            return A.elementwise(lambda v: A0, [x], name="A0")
        return UserFunc("sectionlaw", claw), (lambda x: A0)

    def law(x):
        def one(v):
            t = Af(T.treal(v))
            T.cur().add_fact(t > 0)
            return t
        return A.elementwise(one, [x], name="A(x)")
    return UserFunc("sectionlaw", law), Af


def make_model(chk, kind, source=None, params=None):
    """instantiate the real model class through the interpreter with symbolic parameters"""
    it = chk.interp
    params = params or {}
    if kind == "convection":
        a = params.get("a", z3.Real("aconv"))
        m = it.call(get(chk, "flowdyn.modelphy.convection", "model"), [a], {})
        return m, {"a": a}
    if kind == "burgers":
        return it.call(get(chk, "flowdyn.modelphy.burgers", "model"), [], {}), {}
    if kind == "shallowwater":
        g = params.get("g", z3.Real("grav"))
        assume(g > 0)
        m = it.call(get(chk, "flowdyn.modelphy.shallowwater", "shallowwater1d"), [], {"g": g, "source": source})
        return m, {"g": g}
    gam = params.get("gamma", z3.Real("gamma"))
    assume(gam > 1)
    if kind == "euler1d":
        m = it.call(get(chk, "flowdyn.modelphy.euler", "euler1d"), [], {"gamma": gam, "source": source})
        return m, {"gamma": gam}
    if kind == "nozzle":
        law, Af = section_law(const=bool(params.get("Aconst")))
        m = it.call(get(chk, "flowdyn.modelphy.euler", "nozzle"), [law], {"gamma": gam, "source": source})
        return m, {"gamma": gam, "A": Af, "law": law}
    if kind == "euler2d":
        m = it.call(get(chk, "flowdyn.modelphy.euler", "euler2d"), [], {"gamma": gam, "source": source})
        return m, {"gamma": gam}
    raise ValueError(kind)


def flux_names(model, kind):
    if kind in ("convection", "burgers"):
        return [None]
    names = sorted(model.attrs["_numfluxdict"].attrs["dict"].keys())
    return names


def _pos(arr):
    uf = arr.uf
    arr.inv = lambda i: uf(T.tz(i)) > 0
    return arr


def prim_state(kind, n, tag):
    """admissible symbolic primitive state arrays of length n"""
    if kind in ("convection", "burgers"):
        return [A.input_array("q" + tag, n)]
    if kind == "shallowwater":
        return [_pos(A.input_array("h" + tag, n)), A.input_array("u" + tag, n)]
    if kind in ("euler1d", "nozzle"):
        return [_pos(A.input_array("rho" + tag, n)), A.input_array("u" + tag, n), _pos(A.input_array("p" + tag, n))]
    if kind == "euler2d":
        return [_pos(A.input_array("rho" + tag, n)),
                A.Sym2D([A.input_array("ux" + tag, n), A.input_array("uy" + tag, n)]),
                _pos(A.input_array("p" + tag, n))]
    raise ValueError(kind)


def flat_at(data, i):
    """flatten a data list (arrays / 2-D arrays) at index i to a list of scalar terms"""
    out = []
    for d in data:
        if isinstance(d, A.Sym2D):
            out.extend(T.treal(r.at(i)) for r in d.rows)
        elif isinstance(d, A.SymArray):
            out.append(T.treal(d.at(i)))
        else:
            out.append(T.treal(d))
    return out


def comp_names(kind):
    return {"convection": ["q"], "burgers": ["u"], "shallowwater": ["h", "hu"],
            "euler1d": ["rho", "rhou", "rhoE"], "nozzle": ["rho", "rhou", "rhoE"],
            "euler2d": ["rho", "rhoux", "rhouy", "rhoE"]}[kind]


def parity(kind):
    """sigma_k under x -> -x: -1 for the flux of reflection-even quantities, +1 for odd ones"""
    return {"convection": [-1], "burgers": [1], "shallowwater": [-1, 1],
            "euler1d": [-1, 1, -1], "nozzle": [-1, 1, -1], "euler2d": [-1, 1, 1, -1]}[kind]


def physical_flux(kind, W, info, normal=None):
    """physical flux f(W) of a primitive state (list of scalar terms)"""
    if kind == "convection":
        return [info["a"] * W[0]]
    if kind == "burgers":
        return [W[0] * W[0] / 2]
    if kind == "shallowwater":
        h, u = W
        return [h * u, h * u * u + info["g"] * h * h / 2]
    g = info["gamma"]
    if kind in ("euler1d", "nozzle"):
        r, u, p = W
        H = g / (g - 1) * p / r + u * u / 2
        return [r * u, r * u * u + p, r * u * H]
    if kind == "euler2d":
        r, ux, uy, p = W
        nx, ny = normal
        un = ux * nx + uy * ny
        H = g / (g - 1) * p / r + (ux * ux + uy * uy) / 2
        return [r * un, r * un * ux + p * nx, r * un * uy + p * ny, r * un * H]
    raise ValueError(kind)


def mirror_state(kind, data):
    """M W: negate velocities"""
    neg = lambda x: A.elementwise(T.neg, [x], name="neg")
    if kind == "convection":
        return [data[0]]
    if kind == "burgers":
        return [neg(data[0])]
    if kind == "shallowwater":
        return [data[0], neg(data[1])]
    return [data[0], neg(data[1]), data[2]]


def call_numflux(chk, model, kind, name, pL, pR, dirv=None):
    it = chk.interp
    f = it.getattr(model, "numflux")
    if kind == "euler2d":
        return it.call(f, [name, pL, pR, dirv], {})
    return it.call(f, [name, pL, pR], {})


def normals(kind, n):
    """face normal arrays to enumerate: both face directions in 2-D"""
    if kind != "euler2d":
        return [("", None, None)]
    out = []
    for nm, v in (("dir=x", (1, 0)), ("dir=y", (0, 1))):
        out.append((nm, A.Sym2D([A.full(n, v[0]), A.full(n, v[1])]), v))
    return out


# --------------------------------------------------------------------------------------
# abstract 1-D mesh: the contract of the mesh constructors (proved in C20) as hypothesis

def monotone_array(name, n):
    """input array with the invariant 'strictly increasing', instantiated at the index terms at
    which the array is read: xf(t-1) < xf(t) < xf(t+1) (adjacent instances; comparisons between
    distant faces follow by chaining through the faces that are read in between)"""
    arr = A.input_array(name, n)
    uf = arr.uf
    seen = set()

    def inv(i):
        ti = T.tz(i)
        k = ti.get_id()
        if k in seen:
            return True
        seen.add(k)
        s = T.cur()
        tn = T.tz(n)
        s.add_fact(z3.Implies(z3.And(ti >= 1, ti < tn), uf(ti - 1) < uf(ti)))
        s.add_fact(z3.Implies(z3.And(ti >= 0, ti + 1 < tn), uf(ti) < uf(ti + 1)))
        return True
    arr.inv = inv
    return arr


def monotone_pair(arr, i, j):
    """instance of the invariant 'strictly increasing' of a monotone_array for one pair of indices
    (the adjacent instances given automatically do not chain between distant symbolic indices)"""
    ti, tj, tn = T.tz(i), T.tz(j), T.tz(arr.length)
    uf = arr.uf
    T.cur().add_fact(z3.Implies(z3.And(ti >= 0, tj < tn, ti < tj), uf(ti) < uf(tj)))
    T.cur().add_fact(z3.Implies(z3.And(ti >= 0, ti < tn, ti == tj), uf(ti) == uf(tj)))


def abstract_mesh1d(chk, n, name="xf", cls="mesh1d"):
    """instance of the real mesh class whose constructor is replaced by its contract (C20):
    ncell+1 strictly increasing faces, centres at the face midpoints, length = xf[n]-xf[0]"""
    from pyvc.interp import PyObj
    xf = monotone_array(name, T.add(n, 1))
    xfat = xf.at
    xc = A.SymArray(n, lambda i: T.div(T.add(xfat(i), xfat(T.add(i, 1))), 2), name="xc")
    o = PyObj(get(chk, "flowdyn.mesh", cls))
    with T.no_safety():
        length = T.sub(xf.at(n), xf.at(0))
    o.attrs.update({"ncell": n, "xf": xf, "xc": xc, "length": length, "_type": "1D"})
    return o


def make_field(chk, model, mesh, data, t=None):
    """a real field.fdata object through its constructor"""
    it = chk.interp
    kw = {}
    if t is not None:
        kw["t"] = t
    return it.call(get(chk, "flowdyn.field", "fdata"), [model, mesh, data], kw)


# --------------------------------------------------------------------------------------
# 1-D discretisation harness

XNUM_1D = ["extrapol1", "extrapol2", "extrapolk", "centered", "fromm", "quick", "extrapol3", "muscl"]
KAPPA = {"extrapol2": -1, "fromm": 0, "quick": Fraction(1, 2), "extrapol3": Fraction(1, 3), "centered": 1}


def make_num(chk, name, kappa=None, limiter=None):
    it = chk.interp
    cls = get(chk, "flowdyn.xnum", name)
    if name == "extrapolk":
        return it.call(cls, [kappa if kappa is not None else z3.Real("kappa")], {})
    if name == "muscl":
        lim = get(chk, "flowdyn.xnum", limiter or "minmod")
        return it.call(cls, [], {"limiter": lim})
    return it.call(cls, [], {})


def limiter_names(chk):
    from pyvc.interp import PyFunc
    m = chk.interp.load("flowdyn.xnum")
    return [nm for nm in m.env.vars.get("__all__", [])
            if isinstance(m.env.vars.get(nm), PyFunc) and m.env.vars[nm].defclass is None
            and len(m.env.vars[nm].node.args.args) == 2]


def num_configs(chk, with_limiters=True):
    """(label, class name, limiter) for every 1-D reconstruction exported by xnum"""
    out = []
    for nm in XNUM_1D:
        if nm == "muscl":
            for lim in (limiter_names(chk) if with_limiters else ["minmod"]):
                out.append(("muscl(%s)" % lim, nm, lim))
        else:
            out.append((nm, nm, None))
    return out


def make_disc1d(chk, model, mesh, num, flux=None, bcL=None, bcR=None):
    it = chk.interp
    per = {"type": "per"}
    return it.call(get(chk, "flowdyn.modeldisc", "fvm1d"), [model, mesh, num],
                   {"numflux": flux, "bcL": bcL or per, "bcR": bcR or per})


def cons_state(kind, n, tag, info):
    """admissible conservative data (list of arrays) built from a symbolic primitive state;
    returns (Q, P)"""
    from .C17 import cons_from_prim
    P = prim_state(kind, n, tag)
    return cons_from_prim(kind, P, info), P


def abstract_unimesh(chk, n, cls="unimesh"):
    """the real uniform-mesh class with its constructor replaced by its contract (C20 'uniform'):
    xf[f] = x0 + f*h, xc[i] = x0 + (i+1/2)*h, length = n*h, with an opaque cell size h > 0"""
    from pyvc.interp import PyObj
    h, x0 = z3.Real("hcell"), z3.Real("x0")
    assume(h > 0)
    xf = A.SymArray(T.add(n, 1), lambda f: T.add(x0, T.mul(f, h)), name="xf")
    xc = A.SymArray(n, lambda i: T.add(x0, T.mul(T.add(i, Fraction(1, 2)), h)), name="xc")
    o = PyObj(get(chk, "flowdyn.mesh", cls))
    o.attrs.update({"ncell": n, "xf": xf, "xc": xc, "length": T.mul(n, h), "_type": "1D"})
    return o, h, x0
