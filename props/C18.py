"""C18 — the time step is CFL x cell size / fastest wave speed.

`model.timestep` of every model is executed symbolically on conservative data of symbolic
length and compared at a generic cell with CFL*size/rho(A), the spectral radius rho(A) being
obtained independently: sympy computes the characteristic polynomial of the Jacobian of the
physical flux (the one C02 proves the numerical fluxes consistent with) and checks that
u, u+c, u-c (a; u) are its roots; z3 proves max|root| = |u|+c.  The discretisations are
checked to pass the cell size (1-D: xf[i+1]-xf[i]; 2-D: dx*dy/(dx+dy)).
"""
import z3
from pyvc import terms as T, arrays as A
from pyvc.framework import prove, canary, assume, watch, lemma
from .common import *
from .C17 import cons_from_prim


def spectral_radius(kind, W, info):
    """|a| ; |u| ; |u|+sqrt(g h) ; |u|+c  (from the eigenvalues checked in jacobian_lemmas)"""
    with T.no_safety():
        if kind == "convection":
            return zabs(T.treal(info["a"]))
        if kind == "burgers":
            return zabs(W[0])
        if kind == "shallowwater":
            h, u = W
            return zabs(u) + T.sqrt(info["g"] * h)
        g = info["gamma"]
        if kind == "euler2d":
            r, ux, uy, p = W
            return T.sqrt(ux * ux + uy * uy) + T.sqrt(g * p / r)
        r, u, p = W
        return zabs(u) + T.sqrt(g * p / r)


def jacobian_lemmas(chk):
    """independent derivation of the wave speeds with sympy (exact symbolic algebra)"""
    import sympy as sp
    lam = sp.symbols("lam")
    # convection / burgers
    q, a = sp.symbols("q a")
    chk.native("lemma/jacobian/convection", sp.simplify(sp.diff(a * q, q) - a) == 0, backend="sympy")
    chk.native("lemma/jacobian/burgers", sp.simplify(sp.diff(q * q / 2, q) - q) == 0, backend="sympy")
    # shallow water, conservative variables (h, m)
    h, m, g = sp.symbols("h m g", positive=True)
    m = sp.symbols("m")
    f = sp.Matrix([m, m * m / h + g * h * h / 2])
    J = f.jacobian(sp.Matrix([h, m]))
    cp = (J - lam * sp.eye(2)).det()
    u, c = m / h, sp.sqrt(g * h)
    ok = all(sp.simplify(cp.subs(lam, r)) == 0 for r in (u + c, u - c))
    chk.native("lemma/jacobian/shallowwater", ok, "roots u+-sqrt(g h)", backend="sympy")
    # Euler 1-D, conservative variables (rho, m, E)
    rho, E, gam = sp.symbols("rho E gamma", positive=True)
    m = sp.symbols("m")
    p = (gam - 1) * (E - m * m / (2 * rho))
    f = sp.Matrix([m, m * m / rho + p, m / rho * (E + p)])
    J = f.jacobian(sp.Matrix([rho, m, E]))
    cp = (J - lam * sp.eye(3)).det()
    u = m / rho
    c = sp.sqrt(gam * p / rho)
    ok = all(sp.simplify(cp.subs(lam, r)) == 0 for r in (u, u + c, u - c))
    chk.native("lemma/jacobian/euler1d", ok, "roots u, u+-c", backend="sympy")
    # Euler 2-D flux along a unit normal (nx, ny)
    mx, my, nx, ny = sp.symbols("mx my nx ny")
    p2 = (gam - 1) * (E - (mx * mx + my * my) / (2 * rho))
    un = (mx * nx + my * ny) / rho
    f = sp.Matrix([rho * un, mx * un + p2 * nx, my * un + p2 * ny, (E + p2) * un])
    J = f.jacobian(sp.Matrix([rho, mx, my, E]))
    cp = sp.factor((J - lam * sp.eye(4)).det())
    c2 = sp.sqrt(gam * p2 / rho)
    ok = True
    for r in (un, un + c2, un - c2):
        e = sp.simplify(cp.subs(lam, r).subs(ny, sp.sqrt(1 - nx * nx)))
        ok = ok and (e == 0)
    chk.native("lemma/jacobian/euler2d", ok, "roots un, un+-c for |n|=1", backend="sympy")
    chk.lemmas.append("wave speeds = roots of det(df/dQ - lambda I) checked with sympy for each model")


def build(chk):
    it = chk.interp
    chk.assumptions += ["machine arithmetic treated as mathematical (real) arithmetic",
                        "sqrt as uninterpreted function with instantiated axioms",
                        "sympy's symbolic simplification for the Jacobian eigenvalue lemma"]
    jacobian_lemmas(chk)

    def radius_lemma():
        # max(|u|, |u+c|, |u-c|) == |u| + c for c >= 0 ; |un| <= |V| for a unit normal
        u, c = z3.Real("u"), z3.Real("c")
        assume(c >= 0)
        mx = zmax(zabs(u), zmax(zabs(u + c), zabs(u - c)))
        prove("max-modulus", mx == zabs(u) + c)
        ux, uy, nx, ny, v = z3.Reals("ux uy nx ny v")
        assume(z3.And(nx * nx + ny * ny == 1, v >= 0, v * v == ux * ux + uy * uy))
        prove("normal-velocity-bounded", zabs(ux * nx + uy * ny) <= v)
        prove("normal-velocity-attained",
              z3.Implies(v > 0, z3.And(((ux / v) * (ux / v) + (uy / v) * (uy / v)) == 1, ux * (ux / v) + uy * (uy / v) == v)))
    chk.run("lemma/spectral-radius", radius_lemma)

    for kind in MODEL_KINDS:
        rp = {"fn": "timestep_clause", "args": {"kind": kind}}
        chk.configs.append(kind)

        def ts(kind=kind, rp=rp):
            n = z3.Int("n")
            assume(n >= 1)
            m, info = make_model(chk, kind)
            for k in ("gamma", "g", "a"):
                if k in info:
                    watch(k, info[k])
            cfl = z3.Real("cfl")
            assume(cfl > 0)
            watch("cfl", cfl)
            P = prim_state(kind, n, "W")
            if kind == "burgers":
                # finiteness precondition: the code returns inf for a cell at rest, which min() tolerates
                ufq = P[0].uf
                P[0].inv = lambda j: ufq(T.tz(j)) != 0
            Q = cons_from_prim(kind, P, info)
            dxa = A.input_array("dx", n)
            uf = dxa.uf
            dxa.inv = lambda i: uf(T.tz(i)) > 0
            i = z3.Int("i")
            assume(z3.And(i >= 0, i < n))
            Wi = flat_at(P, i)
            for k, w in enumerate(Wi):
                watch("W%d" % k, w)
            watch("dx", dxa.at(i))
            if kind == "convection":
                assume(info["a"] != 0)
            if kind == "euler2d":
                size = z3.Real("ldim")       # constant cell size on a Cartesian mesh
                assume(size > 0)
                dt = it.call(it.getattr(m, "timestep"), [Q, size, cfl], {})
                sz = size
            else:
                dt = it.call(it.getattr(m, "timestep"), [Q, dxa, cfl], {})
                sz = T.treal(dxa.at(i))
            if not isinstance(dt, A.SymArray):
                raise T.EngineError("timestep did not return an array")
            prove("shape", T.eq(dt.length, n), replay=rp)
            rho = spectral_radius(kind, Wi, info)
            if kind == "euler2d":
                r, ux, uy, p = Wi
                with T.no_safety():
                    lemma_pos_root(T.sqrt((r * ux) * (r * ux) + (r * uy) * (r * uy)), r * T.sqrt(ux * ux + uy * uy))
            val = T.treal(dt.at(i))
            prove("value", val * rho == cfl * sz, replay=rp)
            prove("positive", val > 0, replay=rp)
            # locality: the value at cell i reads the data of cell i only (inspection of the term)
            prove("local", reads_only_index(val, i), replay=rp)
            canary("canary", val <= 0)
        chk.run("%s/timestep" % kind, ts)

    # the discretisations hand the cell size to the model
    def disc1d():
        n = z3.Int("n")
        assume(n >= 1)
        mesh = abstract_mesh1d(chk, n)
        m, info = make_model(chk, "convection")
        assume(info["a"] != 0)
        num = it.call(get(chk, "flowdyn.xnum", "extrapol1"), [], {})
        disc = it.call(get(chk, "flowdyn.modeldisc", "fvm1d"), [m, mesh, num], {})
        f = make_field(chk, m, mesh, [A.input_array("q", n)])
        cfl = z3.Real("cfl")
        assume(cfl > 0)
        dt = it.call(it.getattr(disc, "calc_timestep"), [f, cfl], {})
        i = z3.Int("i")
        assume(z3.And(i >= 0, i < n))
        xf = mesh.attrs["xf"]
        size = T.treal(xf.at(i + 1)) - T.treal(xf.at(i))
        prove("cell-size-passed", T.treal(dt.at(i)) * zabs(T.treal(info["a"])) == cfl * size)
        prove("shape", T.eq(dt.length, n))
    chk.run("fvm1d/calc_timestep", disc1d)

    def disc2d():
        nx, ny = z3.Int("nx"), z3.Int("ny")
        lx, ly = z3.Real("lx"), z3.Real("ly")
        assume(z3.And(nx >= 1, ny >= 1, lx > 0, ly > 0))
        mesh = it.call(get(chk, "flowdyn.mesh2d", "mesh2d"), [nx, ny, lx, ly], {})
        m, info = make_model(chk, "euler2d")
        num = it.call(get(chk, "flowdyn.xnum", "extrapol2d1"), [], {})
        bc = {t: {"type": "per"} for t in ("top", "bottom", "left", "right")}
        disc = it.call(get(chk, "flowdyn.modeldisc", "fvm2dcart"), [m, mesh, num, bc], {})
        n = nx * ny
        P = prim_state("euler2d", n, "W")
        Q = cons_from_prim("euler2d", P, info)
        f = make_field(chk, m, mesh, Q)
        cfl = z3.Real("cfl")
        assume(cfl > 0)
        dt = it.call(it.getattr(disc, "calc_timestep"), [f, cfl], {})
        i = z3.Int("i")
        assume(z3.And(i >= 0, i < n))
        Wi = flat_at(P, i)
        rho = spectral_radius("euler2d", Wi, info)
        r, ux, uy, p = Wi
        with T.no_safety():
            lemma_pos_root(T.sqrt((r * ux) * (r * ux) + (r * uy) * (r * uy)), r * T.sqrt(ux * ux + uy * uy))
        dx, dy = lx / z3.ToReal(nx), ly / z3.ToReal(ny)
        rp = {"fn": "timestep2d_clause", "args": {}}
        prove("cell-size-passed", T.treal(dt.at(i)) * rho == cfl * (dx * dy / (dx + dy)), replay=rp)
        # the same statement through the contract of model.timestep (clause 'value' above: dt*rho(A) = cfl*size, pointwise): the
        # call site hands the data of the field, the characteristic size dx*dy/(dx+dy) and the CFL number
        tsf = it.getattr(m, "timestep").func
        rec = {}

        class Capture:
            def apply(self, interp, f_, bound):
                rec.update(bound)
                return A.input_array("dtm", n)
        it.contracts[tsf.qualname] = Capture()
        it.active_contracts.add(tsf.qualname)
        try:
            it.call(it.getattr(disc, "calc_timestep"), [f, cfl], {})
        finally:
            it.active_contracts.discard(tsf.qualname)
        args = [v for k, v in rec.items() if k != "self"]
        sizes = [v for v in args if not isinstance(v, (list, tuple)) and T.is_sym(v) and not v.eq(cfl)]
        prove("call-site/passes-one-size-and-the-cfl", len(sizes) == 1 and any(T.is_sym(v) and v.eq(cfl) for v in args), replay=rp)
        if len(sizes) == 1:
            prove("call-site/characteristic-size", T.treal(sizes[0]) * (dx + dy) == dx * dy, replay=rp)
    chk.run("fvm2dcart/calc_timestep", disc2d)


def lemma_pos_root(x, y):
    x, y = T.treal(x), T.treal(y)
    assume(z3.Implies(z3.And(x >= 0, y >= 0, x * x == y * y), x == y))


def reads_only_index(term, i):
    """syntactic locality: every application of an input-array function in `term` is at index i"""
    seen = set()
    st = [term]
    while st:
        e = st.pop()
        if e.get_id() in seen:
            continue
        seen.add(e.get_id())
        if z3.is_app(e) and e.decl().kind() == z3.Z3_OP_UNINTERPRETED and e.num_args() == 1 \
                and e.arg(0).sort() == z3.IntSort():
            if not e.arg(0).eq(i):
                return False
        st.extend(e.children())
    return True
