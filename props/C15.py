"""C15 — the 2-D Cartesian solver agrees with the 1-D solver and with the grid symmetries.

Contract chain (all on the real code, executed symbolically from the ast):

  leaf (flux)   every 2-D flux of the statement (centered, hlle), real bodies, all admissible states:
                  T    F(tW_L, tW_R; e_y) = t F(W_L, W_R; e_x)              t = exchange of the x and y components
                  N_d  F(R_d W_R, R_d W_L; e_d) = -R_d F(W_L, W_R; e_d)     R_d = reflection of direction d (normal to the face)
                  E_d  F(R_d W_L, R_d W_R; e_d') = R_d F(W_L, W_R; e_d')    (tangential to the face)
                  D    F2d((rho,u,0,p)_L, (rho,u,0,p)_R; e_x) = (F1d_rho, F1d_rhou, 0, F1d_rhoE) for the 1-D flux of the same name
  leaf (bc)     every 2-D boundary condition of the statement commutes with t, R_x, R_y (normal transformed alike), is
                pointwise along the boundary, and reduces to the 1-D condition of the same name for a velocity along the normal
  operator      fvm2dcart.rhs executed on a problem and on its image (symbolic nx, ny, lx, ly, kappa; numflux and namedBC through
                the contracts above, instantiated between the logged calls of the two runs): per-cell balance in both runs,
                face states of the image = image of the face states, hence residual of the image = image of the residual at a
                generic cell; 2-D vs 1-D: data constant along y (x), zero transverse velocity, fvm1d.rhs on the uniform mesh.
"""
import z3
from pyvc import terms as T, arrays as A
from pyvc.framework import prove, canary, assume, watch, lemma, lazy_safety
from pyvc.interp import PyObj
from contracts import flux_hints
from contracts.flux_contract import use_flux_contract
from .common import *
from .common import _pos
from . import C02
from .C18 import reads_only_index

E2 = "euler.euler2d."
EU = "euler.euler."
FLUXES = ("centered", "hlle")                    # the statement's fluxes
BCS = ("sym", "insub", "insup", "outsub", "outsup")
BCPARAMS = {"insub": ["ptot", "rttot"], "insup": ["ptot", "rttot", "p"], "outsub": ["p"], "outsup": [], "sym": []}


# ---- transformations of a primitive state [rho, (ux, uy), p] and of a flux / residual [rho, rhoux, rhouy, rhoE] -------------

def neg(a):
    return A.elementwise(T.neg, [a], name="neg")


def st_transpose(W):
    return [W[0], A.Sym2D([W[1].rows[1], W[1].rows[0]]), W[2]]


def st_reflect(W, d):
    r = list(W[1].rows)
    r[d] = neg(r[d])
    return [W[0], A.Sym2D(r), W[2]]


# (component of run 1, sign) for each component of run 2
MAP_T = [(0, 1), (2, 1), (1, 1), (3, 1)]


def map_reflect(d, normal):
    """R_d on a flux; with normal=True the additional minus sign of the exchanged sides"""
    m = [(0, 1), (1, 1), (2, 1), (3, 1)]
    m[1 + d] = (1 + d, -1)
    if normal:
        m = [(k, -s) for k, s in m]
    return m


def dir_array(n, v):
    return A.Sym2D([A.full(n, v[0]), A.full(n, v[1])])


EX, EY = (1, 0), (0, 1)

FLUX_CLAUSES = {
    # name: (normal run 1, normal run 2, exchange sides, state map, flux map, hint mode, URoe map)
    "transpose": (EX, EY, False, st_transpose, MAP_T, "same", None),
    "transpose-back": (EY, EX, False, st_transpose, MAP_T, "same", None),
    "reflect-x/normal": (EX, EX, True, lambda W: st_reflect(W, 0), map_reflect(0, True), "mirror",
                         lambda U: A.Sym2D([neg(U.rows[0]), U.rows[1]])),
    "reflect-y/normal": (EY, EY, True, lambda W: st_reflect(W, 1), map_reflect(1, True), "mirror",
                         lambda U: A.Sym2D([U.rows[0], neg(U.rows[1])])),
    "reflect-x/tangential": (EY, EY, False, lambda W: st_reflect(W, 0), map_reflect(0, False), "same", None),
    "reflect-y/tangential": (EX, EX, False, lambda W: st_reflect(W, 1), map_reflect(1, False), "same", None),
}


def flux_leaves(chk):
    it = chk.interp
    for name in FLUXES:
        for cname, (n1, n2, swap, smap, fmap, mode, utr) in FLUX_CLAUSES.items():
            rp = {"fn": "flux2d_symmetry_clause", "args": {"flux": name, "clause": cname}}

            def leaf(name=name, n1=n1, n2=n2, swap=swap, smap=smap, fmap=fmap, mode=mode, utr=utr, rp=rp):
                n = z3.Int("n")
                assume(n >= 1)
                m, info = make_model(chk, "euler2d")
                C02.watch_params(info)
                WL, WR = prim_state("euler2d", n, "L"), prim_state("euler2d", n, "R")
                i = z3.Int("i")
                assume(z3.And(i >= 0, i < n))
                C02.watch_state("WL", flat_at(WL, i))
                C02.watch_state("WR", flat_at(WR, i))
                H = None
                if name == "hlle":
                    fn = (E2 + "_Roe_average", E2 + "numflux_hlle", True)
                    H = flux_hints.install_relational(it, fn, fn, mode, utr)
                F1 = C02.run_flux(chk, m, "euler2d", name, WL, WR, dir_array(n, n1), H, 1)
                A2 = (smap(WR), smap(WL)) if swap else (smap(WL), smap(WR))
                F2 = C02.run_flux(chk, m, "euler2d", name, A2[0], A2[1], dir_array(n, n2), H, 2)
                it.hints = None
                f1, f2 = flat_at(F1, i), flat_at(F2, i)
                for k2, (k1, sg) in enumerate(fmap):
                    prove("%s[%s]" % ("clause", comp_names("euler2d")[k2]), f2[k2] == sg * f1[k1],
                          replay=dict(rp, args=dict(rp["args"], comp=k2)))
                C02.finish_hints(chk, H)
                canary("canary", f1[0] == f1[0] + 1)
            chk.run("flux/%s/%s" % (name, cname), leaf)

        # D: the 2-D flux along x (y) for states without transverse velocity is the 1-D flux of the same name
        for dn, nv in (("x", EX), ("y", EY)):
            rp = {"fn": "flux2d_symmetry_clause", "args": {"flux": name, "clause": "one-dimensional/" + dn}}

            def leaf1d(name=name, dn=dn, nv=nv, rp=rp):
                n = z3.Int("n")
                assume(n >= 1)
                m2, info = make_model(chk, "euler2d")
                m1, _ = make_model(chk, "euler1d")
                C02.watch_params(info)
                WL, WR = prim_state("euler1d", n, "L"), prim_state("euler1d", n, "R")
                i = z3.Int("i")
                assume(z3.And(i >= 0, i < n))
                C02.watch_state("WL", flat_at(WL, i))
                C02.watch_state("WR", flat_at(WR, i))
                zero = A.full(n, 0)
                lift = lambda W: [W[0], A.Sym2D([W[1], zero] if dn == "x" else [zero, W[1]]), W[2]]
                H = None
                if name == "hlle":
                    H = flux_hints.install_relational(it, (E2 + "_Roe_average", E2 + "numflux_hlle", True),
                                                      (EU + "_Roe_average", EU + "numflux_hlle", False), "same")
                F2 = C02.run_flux(chk, m2, "euler2d", name, lift(WL), lift(WR), dir_array(n, nv), H, 1)
                F1 = C02.run_flux(chk, m1, "euler1d", name, WL, WR, None, H, 2)
                it.hints = None
                f1, f2 = flat_at(F1, i), flat_at(F2, i)
                kn, kt = (1, 2) if dn == "x" else (2, 1)
                prove("mass", f2[0] == f1[0], replay=rp)
                prove("normal-momentum", f2[kn] == f1[1], replay=rp)
                prove("transverse-momentum-flux-vanishes", f2[kt] == 0, replay=rp)
                prove("energy", f2[3] == f1[2], replay=rp)
                C02.finish_hints(chk, H)
                canary("canary", f1[0] == f1[0] + 1)
            chk.run("flux/%s/one-dimensional/%s" % (name, dn), leaf1d)


SIDES = {"left": (-1, 0), "right": (1, 0), "bottom": (0, -1), "top": (0, 1)}


def bc_params(name):
    prm = {k: z3.Real("prm_" + k) for k in BCPARAMS[name]}
    for k, v in prm.items():
        assume(v > 0)
        watch("prm_" + k, v)
    return prm


def bc_leaves(chk):
    it = chk.interp
    trans = {
        "transpose": (st_transpose, lambda d: (d[1], d[0])),
        "reflect-x": (lambda W: st_reflect(W, 0), lambda d: (-d[0], d[1])),
        "reflect-y": (lambda W: st_reflect(W, 1), lambda d: (d[0], -d[1])),
    }
    for name in BCS:
        # pointwise along the boundary (frame of the contract used at the call sites)
        def pw(name=name):
            n = z3.Int("n")
            assume(n >= 1)
            m, info = make_model(chk, "euler2d")
            W = prim_state("euler2d", n, "W")
            dirv = A.Sym2D([A.input_array("dirx", n), A.input_array("diry", n)])
            prm = dict(bc_params(name), type=name)
            with lazy_safety():
                out = it.call(it.getattr(m, "namedBC"), [name, dirv, W, prm], {})
            f = z3.Int("f")
            assume(z3.And(f >= 0, f < n))
            o = flat_at(out, f)
            prove("pointwise", all(reads_only_index(x, f) for x in o),
                  note="the boundary state at position f is a function of the interior state and normal at position f only")
            prove("components", len(o) == 4)
        chk.run("bc/%s/pointwise" % name, pw)
        for tname, (smap, dmap) in trans.items():
            for side, d in SIDES.items():
                rp = {"fn": "bc2d_symmetry_clause", "args": {"bc": name, "transform": tname, "side": side}}

                def leaf(name=name, smap=smap, dmap=dmap, d=d, rp=rp):
                    n = z3.Int("n")
                    assume(n >= 1)
                    m, info = make_model(chk, "euler2d")
                    W = prim_state("euler2d", n, "W")
                    i = z3.Int("i")
                    assume(z3.And(i >= 0, i < n))
                    C02.watch_state("W", flat_at(W, i))
                    prm = dict(bc_params(name), type=name)
                    with lazy_safety():
                        o1 = it.call(it.getattr(m, "namedBC"), [name, dir_array(n, d), W, prm], {})
                        o2 = it.call(it.getattr(m, "namedBC"), [name, dir_array(n, dmap(d)), smap(W), dict(prm)], {})
                    want = flat_at(smap(o1), i)
                    got = flat_at(o2, i)
                    for k, cn in enumerate(("rho", "ux", "uy", "p")):
                        prove("commutes[%s]" % cn, got[k] == want[k], replay=rp)
                chk.run("bc/%s/%s/%s" % (name, tname, side), leaf)
        # the 2-D condition with a velocity along the normal is the 1-D condition of the same name
        for side, d in SIDES.items():
            rp = {"fn": "bc2d_symmetry_clause", "args": {"bc": name, "transform": "one-dimensional", "side": side}}

            def leaf1(name=name, side=side, d=d, rp=rp):
                n = z3.Int("n")
                assume(n >= 1)
                m2, info = make_model(chk, "euler2d")
                m1, _ = make_model(chk, "euler1d")
                W = prim_state("euler1d", n, "W")
                i = z3.Int("i")
                assume(z3.And(i >= 0, i < n))
                C02.watch_state("W", flat_at(W, i))
                zero = A.full(n, 0)
                alongx = side in ("left", "right")
                lift = lambda V: [V[0], A.Sym2D([V[1], zero] if alongx else [zero, V[1]]), V[2]]
                prm = dict(bc_params(name), type=name)
                d1 = d[0] if alongx else d[1]
                with lazy_safety():
                    o2 = it.call(it.getattr(m2, "namedBC"), [name, dir_array(n, d), lift(W), prm], {})
                    o1 = it.call(it.getattr(m1, "namedBC"), [name, d1, W, dict(prm)], {})
                got = flat_at(o2, i)
                w1 = flat_at(o1, i)
                kn, kt = (1, 2) if alongx else (2, 1)
                prove("density", got[0] == w1[0], replay=rp)
                prove("normal-velocity", got[kn] == w1[1], replay=rp)
                prove("no-transverse-velocity", got[kt] == 0, replay=rp)
                prove("pressure", got[3] == w1[2], replay=rp)
            chk.run("bc/%s/one-dimensional/%s" % (name, side), leaf1)


# ======================================================================================================================
# operator level

QN_BC = "flowdyn.modelphy.base::model.namedBC"
QN_FLUX = "flowdyn.modelphy.euler::euler.numflux"


class BC2D:
    """contract of model.namedBC at the call sites of calc_bc (both runs): opaque boundary states, one value per boundary
    face (pointwise, leaf bc/*/pointwise); the commutation clauses (leaves bc/*) are instantiated between logged calls"""

    def __init__(self, real_for=None):
        self.calls = []
        self.real_for = real_for        # predicate on the normal (2-tuple): run the real function for these sides

    def apply(self, interp, f, bound):
        data = bound["data"]
        two_d = any(isinstance(d, A.Sym2D) for d in data)
        if two_d and self.real_for is not None:
            from contracts.flux_contract import _flat, _snap
            nrm = tuple(int(T.conc_value(x)) if T.is_sym(x) else int(x) for x in _flat([_snap(bound["dir"])], 0))
            if self.real_for(nrm):
                interp.active_contracts.discard(QN_BC)
                try:
                    return interp.call(interp.getattr(bound["self"], "namedBC"),
                                       [bound["name"], bound["dir"], data, bound["param"]], {})
                finally:
                    interp.active_contracts.add(QN_BC)
        k = len(self.calls)
        if two_d:
            n = data[0].length
            out = [A.input_array("bc%d_rho" % k, n), A.Sym2D([A.input_array("bc%d_ux" % k, n), A.input_array("bc%d_uy" % k, n)]),
                   A.input_array("bc%d_p" % k, n)]
        else:
            out = [T.cur().fresh("bc%d_" % k) for _ in data]
        from contracts.flux_contract import _snap
        self.calls.append({"name": bound["name"], "dir": _snap(bound["dir"]) if two_d else bound["dir"],
                           "data": [_snap(d) for d in data] if two_d else [T.treal(x) for x in data],
                           "param": bound["param"], "out": out, "two_d": two_d})
        T.cur().trace.append(("contract", "bc_" + str(bound["name"])))
        return out

    @staticmethod
    def at(call, k):
        """(normal, interior state, boundary state) of a 2-D call at position k along the boundary"""
        from contracts.flux_contract import _flat
        return _flat([call["dir"]], k), _flat(call["data"], k), flat_at(call["out"], k)

    def by_dir(self, run, d):
        """the logged 2-D call of run (list of calls) whose normal is d"""
        for c in run:
            if c["two_d"]:
                nrm = [T.conc_value(x) if T.is_sym(x) else x for x in self.at(c, 0)[0]]
                if tuple(int(v) for v in nrm) == tuple(d):
                    return c
        return None

    @staticmethod
    def by_side(run, bcs, side):
        """the logged 2-D call for `side`: calc_bc visits the sides in the order of the bc dictionary and calls namedBC for every
        non-periodic one (the normal the mesh hands over is part of what is checked, so it is not used to identify the call)"""
        order = [s_ for s_, v in bcs.items() if v["type"] != "per"]
        calls = [c for c in run if c["two_d"]]
        if side not in order or len(calls) != len(order):
            return None
        return calls[order.index(side)]

    def instance(self, c1, k1, c2, k2, smap, dmap):
        """leaf clause bc(name, S n, S W, prm) = S bc(name, n, W, prm), instantiated at positions k1 / k2"""
        n1, w1, o1 = self.at(c1, k1)
        n2, w2, o2 = self.at(c2, k2)
        rel = [T.tz(c1["name"] == c2["name"])]
        rel += [y == x for x, y in zip(dmap(n1), n2)]
        rel += [y == x for x, y in zip(smap(w1), w2)]
        for k, v in c1["param"].items():
            if k != "type":
                rel.append(T.treal(c2["param"].get(k)) == T.treal(v))
        rel = z3.And(*rel)
        # (no trigger: the position term under which the solver meets the boundary state may be written differently)
        T.cur().add_fact(z3.Implies(rel, z3.And(*[y == x for x, y in zip(smap(o1), o2)])))
        return rel


QN_C2P = "flowdyn.modelphy.euler::euler.cons2prim"


class C2PContract:
    """contract of model.cons2prim at its call site in modeldisc.base.cons2prim: pointwise, P_k(i) = c2p_k(gamma; Q(i)) for
    uninterpreted c2p_k, with the commutation clauses c2p(S q) = S c2p(q) (S in `smaps`) and, with `lift`, the reduction
    c2p2d(lift q) = lift c2p1d(q); every clause is a leaf obligation against the real cons2prim (leaves cons2prim/*)"""

    def __init__(self, smaps=(), lifts=()):
        self.smaps, self.lifts = list(smaps), list(lifts)
        R = z3.RealSort()
        self.F2 = [z3.Function("c2p2d_%d" % k, R, R, R, R, R, R) for k in range(4)]
        self.F1 = [z3.Function("c2p1d_%d" % k, R, R, R, R, R) for k in range(3)]

    def apply(self, interp, f, bound):
        from contracts.flux_contract import _snap, _flat
        q = bound["qdata"]
        two_d = any(isinstance(x, A.Sym2D) for x in q)
        gam = T.treal(bound["self"].attrs["gamma"])
        snaps = [_snap(x) for x in q]
        n = q[0].length
        F2, F1 = self.F2, self.F1

        def comp(k):
            def fn(i):
                a = _flat(snaps, i)
                if two_d:
                    val = [F(gam, *a) for F in F2]
                    for S in self.smaps:
                        img = S(a)
                        # trigger: the density of the cell (occurs whenever any component of this cell is read)
                        T.cur().add_fact(z3.And(*[F(gam, *img) == w for F, w in zip(F2, S(val))]), trigger=a[0])
                else:
                    val = [F(gam, *a) for F in F1]
                    for lift in self.lifts:
                        T.cur().add_fact(z3.And(*[F(gam, *lift(a, 0)) == w for F, w in zip(F2, lift(val, None))]), trigger=a[0])
                return val[k]
            return A.SymArray(n, fn, name="P%d" % k)
        if two_d:
            return [comp(0), A.Sym2D([comp(1), comp(2)]), comp(3)]
        return [comp(0), comp(1), comp(2)]


def cons_arrays(n, tag="Q"):
    """admissible conservative data of a 2-D field as input arrays (density positive)"""
    return [_pos(A.input_array("rho" + tag, n)), A.Sym2D([A.input_array("mx" + tag, n), A.input_array("my" + tag, n)]),
            A.input_array("E" + tag, n)]


def flux_instance(rec1, f1, rec2, f2, swap, smap, n1, n2, fmap):
    """leaf flux clause instantiated between face f1 of run 1 and face f2 of run 2 (both 2-D records)"""
    a1, a2 = rec1["args_at"](f1), rec2["args_at"](f2)
    L1, R1, N1 = a1[:4], a1[4:8], a1[8:]
    want = (smap(R1) + smap(L1)) if swap else (smap(L1) + smap(R1))
    rel = [y == x for x, y in zip(want, a2[:8])]
    rel += [x == v for x, v in zip(N1, n1)] + [x == v for x, v in zip(a2[8:], n2)]
    rel += [y == x for x, y in zip(rec1["params"], rec2["params"])]
    rel.append(T.tz(rec1["name"] == rec2["name"]))
    rel = z3.And(*rel)
    for k2, (k1, sg) in enumerate(fmap):
        g2 = T.treal(rec2["G"][k2].at(f2))
        T.cur().add_fact(z3.Implies(rel, g2 == sg * T.treal(rec1["G"][k1].at(f1))), trigger=g2)
    return rel


# scalar versions of the state maps (flat [rho, ux, uy, p])
S_T = lambda W: [W[0], W[2], W[1], W[3]]
S_RX = lambda W: [W[0], -W[1], W[2], W[3]]
S_RY = lambda W: [W[0], W[1], -W[2], W[3]]


def cell_array(n, ncol, fn):
    """array over the cells of a grid with ncol columns whose element at c = row*ncol + col is fn(row, col); the Euclidean
    division of the index is resolved by an explicit witness when the index has that form"""
    def at(c):
        w = A.find_quotient(T.simp(c), ncol) if T.is_sym(c) else None
        if w is None and not T.is_sym(c) and not T.is_sym(ncol):
            w = (c // ncol, c % ncol)
        if w is None:
            with T.no_safety():
                w = (T.floordiv(c, ncol), T.mod(c, ncol))
        return fn(w[0], w[1])
    return A.SymArray(n, at, name="img")


def image_state(P1, n, ncol2, cellmap, smap):
    """primitive arrays of problem 2: P2[row, col] = S P1[cellmap(row, col)]"""
    f1 = [P1[0]._snapshot_at(), P1[1].rows[0]._snapshot_at(), P1[1].rows[1]._snapshot_at(), P1[2]._snapshot_at()]

    def comp(k):
        def val(r, c):
            i = cellmap(r, c)
            i = T.simp(i) if T.is_sym(i) else i
            i = A._canon_index(i) if T.is_sym(i) else i
            return smap([T.treal(f(i)) for f in f1])[k]
        return cell_array(n, ncol2, val)
    return [comp(0), A.Sym2D([comp(1), comp(2)]), comp(3)]


class A_ctx:
    """evaluate array elements under a (range) condition, so that the inline index decisions can use it"""

    def __init__(self, cond):
        self.c = None if cond is True else T.tz(cond)
        if self.c is not None:
            T._KEEP.append((self.c, None))

    def __enter__(self):
        if self.c is not None:
            s = T.cur()
            s.pc.append(self.c)
            s.lctx.append(self.c.get_id())

    def __exit__(self, *a):
        if self.c is not None:
            s = T.cur()
            s.pc.pop()
            s.lctx.pop()


def xface(nx, J, F):
    return J * (nx + 1) + F


def yface(nx, ny, Jf, I):
    return ny * (nx + 1) + Jf * nx + I


BCSETS = {
    # name: (left, right, bottom, top)
    "per-per": ("per", "per", "per", "per"),
    "sym-sym": ("sym", "sym", "sym", "sym"),
    "insub-outsub/sym": ("insub", "outsub", "sym", "sym"),
    "outsub-insub/per": ("outsub", "insub", "per", "per"),
    "insup-outsup/sym": ("insup", "outsup", "sym", "sym"),
    "sym/insub-outsub": ("sym", "sym", "insub", "outsub"),
    "per/outsup-insup": ("per", "per", "outsup", "insup"),
}


def bc_value(tag):
    d = {"type": tag}
    for k in BCPARAMS.get(tag, []):
        d[k] = z3.Real("bcprm_%s_%s" % (tag, k))
    return d


def operator_symmetries(chk):
    it = chk.interp
    NUM2D = [("extrapol2d1", False), ("extrapol2dk", True)]
    TRANS = ["transpose", "reflect-x", "reflect-y"]
    for numname, haskappa in NUM2D:
        for tname in TRANS:
            for bcname, (bl, br, bb, bt) in BCSETS.items():
                # quick tier: representative closures (periodic, walls + inlet/outlet along x or y, supersonic along y); thorough: all
                if chk.tier == "quick" and numname == "extrapol2dk" and (tname, bcname) not in (
                        ("transpose", "per-per"), ("transpose", "insub-outsub/sym"), ("reflect-x", "insub-outsub/sym"), ("reflect-y", "per-per")):
                    continue
                if chk.tier == "quick" and numname == "extrapol2d1" and bcname not in ("per-per", "insub-outsub/sym", "sym/insub-outsub",
                                                                                      "per/outsup-insup"):
                    continue
                cfg = "fvm2dcart/%s/%s/%s" % (numname, tname, bcname)
                chk.configs.append(cfg)
                rp = {"fn": "sym2d_clause", "args": {"num": numname, "transform": tname, "bc": [bl, br, bb, bt]}}

                def op(numname=numname, haskappa=haskappa, tname=tname, bl=bl, br=br, bb=bb, bt=bt, rp=rp):
                    nx, ny = z3.Int("nx"), z3.Int("ny")
                    lx, ly = z3.Real("lx"), z3.Real("ly")
                    assume(z3.And(nx >= 1, ny >= 1, lx > 0, ly > 0))
                    # generic cell of problem 2 (row r2, column c2) and its image (row r1, column c1) in problem 1
                    a, b = z3.Int("a"), z3.Int("b")           # a: a row index of problem 1, b: a column index of problem 1
                    assume(z3.And(a >= 0, a < ny, b >= 0, b < nx))
                    lemma("index-products", z3.And(a * nx >= 0, (ny - 1 - a) * nx >= 0, b * ny >= 0, (nx - 1 - b) * ny >= 0,
                                                   (nx - 1) * (ny - 1) >= 0))
                    # the same products on either side of the positions next to the boundaries (decide which stencil case applies)
                    for v, N, M in ((a, ny, nx), (b, nx, ny)):
                        for t in (0, 1, 2):
                            lemma("index-products/%s/%d" % (v, t),
                                  z3.And(z3.Implies(v >= t, (v - t) * M >= 0), z3.Implies(v <= t, (t - v) * M >= 0),
                                         z3.Implies(v <= N - 1 - t, (N - 1 - t - v) * M >= 0),
                                         z3.Implies(v >= N - 1 - t, (v - (N - 1 - t)) * M >= 0)))
                    bc1 = {"left": bc_value(bl), "right": bc_value(br), "bottom": bc_value(bb), "top": bc_value(bt)}
                    for v in bc1.values():
                        for k, x in v.items():
                            if k != "type":
                                assume(x > 0)
                    if tname == "transpose":
                        nx2, ny2, lx2, ly2 = ny, nx, ly, lx
                        bc2 = {"left": bc1["bottom"], "right": bc1["top"], "bottom": bc1["left"], "top": bc1["right"]}
                        r2, c2, r1, c1 = b, a, a, b
                        cellmap = lambda r, c: c * nx + r
                        smap, vmap, rmap = S_T, st_transpose, MAP_T
                        dmap = lambda d: [d[1], d[0]]
                        side_map = {"left": "bottom", "right": "top", "bottom": "left", "top": "right"}   # side of 2 -> side of 1
                    elif tname == "reflect-x":
                        nx2, ny2, lx2, ly2 = nx, ny, lx, ly
                        bc2 = {"left": bc1["right"], "right": bc1["left"], "bottom": bc1["bottom"], "top": bc1["top"]}
                        r2, c2, r1, c1 = a, b, a, nx - 1 - b
                        cellmap = lambda r, c: r * nx + (nx - 1 - c)
                        smap, vmap, rmap = S_RX, (lambda W: st_reflect(W, 0)), map_reflect(0, False)
                        dmap = lambda d: [-d[0], d[1]]
                        side_map = {"left": "right", "right": "left", "bottom": "bottom", "top": "top"}
                    else:
                        nx2, ny2, lx2, ly2 = nx, ny, lx, ly
                        bc2 = {"left": bc1["left"], "right": bc1["right"], "bottom": bc1["top"], "top": bc1["bottom"]}
                        r2, c2, r1, c1 = a, b, ny - 1 - a, b
                        cellmap = lambda r, c: (ny - 1 - r) * nx + c
                        smap, vmap, rmap = S_RY, (lambda W: st_reflect(W, 1)), map_reflect(1, False)
                        dmap = lambda d: [d[0], -d[1]]
                        side_map = {"left": "left", "right": "right", "bottom": "top", "top": "bottom"}
                    mcls = get(chk, "flowdyn.mesh2d", "mesh2d")
                    mesh1 = it.call(mcls, [nx, ny, lx, ly], {})
                    mesh2 = it.call(mcls, [nx2, ny2, lx2, ly2], {})
                    m, info = make_model(chk, "euler2d")
                    num = it.call(get(chk, "flowdyn.xnum", numname), [z3.Real("kappa")] if haskappa else [], {})
                    dcls = get(chk, "flowdyn.modeldisc", "fvm2dcart")
                    d1 = it.call(dcls, [m, mesh1, num, bc1], {})
                    d2 = it.call(dcls, [m, mesh2, num, bc2], {})
                    n = nx * ny
                    # the image problem in conservative variables: cells permuted, momentum components exchanged / negated
                    Q1 = cons_arrays(n)
                    Q2 = image_state(Q1, n, nx2, cellmap, smap)
                    f1, f2 = make_field(chk, m, mesh1, Q1), make_field(chk, m, mesh2, Q2)
                    bcc = BC2D()
                    it.contracts[QN_BC] = bcc
                    it.active_contracts.add(QN_BC)
                    it.contracts[QN_C2P] = C2PContract(smaps=[smap])
                    it.active_contracts.add(QN_C2P)
                    try:
                        with use_flux_contract(it, "euler2d", info, clauses=(), requires=False, opaque=True) as fc, lazy_safety():
                            res1 = [r.copy() for r in it.call(it.getattr(d1, "rhs"), [f1], {})]
                            rec1, nb1 = fc.last, len(bcc.calls)
                            res2 = it.call(it.getattr(d2, "rhs"), [f2], {})
                            rec2 = fc.last
                    finally:
                        it.active_contracts.discard(QN_BC)
                        it.active_contracts.discard(QN_C2P)
                    run1, run2 = bcc.calls[:nb1], bcc.calls[nb1:]
                    cell1, cell2 = r1 * nx + c1, r2 * nx2 + c2
                    # ---- boundary-condition clause instances (valid implications; their premises are proved below) -------------------
                    pos2 = {"left": r2, "right": r2, "bottom": c2, "top": c2}
                    pos1 = {"left": r1, "right": r1, "bottom": c1, "top": c1}
                    for s2, s1 in side_map.items():
                        cc2, cc1 = bcc.by_side(run2, bc2, s2), bcc.by_side(run1, bc1, s1)
                        if cc2 is None and cc1 is None:
                            continue
                        if cc2 is None or cc1 is None:
                            raise T.EngineError("boundary-condition calls of the two runs do not correspond")
                        lemma("bc-arguments-are-images/%s" % s2, bcc.instance(cc1, pos1[s1], cc2, pos2[s2], smap, dmap))
                    # ---- faces of the generic cell of problem 2 and their images ------------------------------------------------------
                    faces = []
                    for dF in (0, 1):
                        if tname == "transpose":
                            faces.append(("x%d" % dF, xface(nx2, r2, c2 + dF), yface(nx, ny, r1 + dF, c1), False, "transpose", EY, EX))
                            faces.append(("y%d" % dF, yface(nx2, ny2, r2 + dF, c2), xface(nx, r1, c1 + dF), False, "transpose", EX, EY))
                        elif tname == "reflect-x":
                            faces.append(("x%d" % dF, xface(nx, r2, c2 + dF), xface(nx, r1, c1 + 1 - dF), True, "reflect-x/normal", EX, EX))
                            faces.append(("y%d" % dF, yface(nx, ny, r2 + dF, c2), yface(nx, ny, r1 + dF, c1), False, "reflect-x/tangential", EY, EY))
                        else:
                            faces.append(("x%d" % dF, xface(nx, r2, c2 + dF), xface(nx, r1, c1 + dF), False, "reflect-y/tangential", EX, EX))
                            faces.append(("y%d" % dF, yface(nx, ny, r2 + dF, c2), yface(nx, ny, r1 + 1 - dF, c1), True, "reflect-y/normal", EY, EY))
                    names = ("rho", "ux", "uy", "p")
                    for fname, fidx2, fidx1, swap, clause, nrm1, nrm2 in faces:
                        fmap = FLUX_CLAUSES[clause][4]
                        a1, a2 = rec1["args_at"](fidx1), rec2["args_at"](fidx2)
                        L1, R1 = a1[:4], a1[4:8]
                        want = (smap(R1) + smap(L1)) if swap else (smap(L1) + smap(R1))
                        for j, (x, y) in enumerate(zip(want, a2[:8])):
                            lemma("face-states/%s/%s[%s]" % (fname, "L" if j < 4 else "R", names[j % 4]), y == x)
                        lemma("flux-arguments-are-images/%s" % fname,
                              flux_instance(rec1, fidx1, rec2, fidx2, swap, smap, nrm1, nrm2, fmap))
                    r1f, r2f = flat_at(res1, cell1), flat_at(res2, cell2)
                    for k2, (k1, sg) in enumerate(rmap):
                        prove("residual-of-the-image-is-the-image[%s]" % comp_names("euler2d")[k2], r2f[k2] == sg * r1f[k1], replay=rp)
                    canary("canary", r2f[0] == r2f[0] + 1)
                chk.run(cfg, op)


def one_dimensional_agreement(chk):
    """2-D operator on data that vary along one direction only (zero transverse velocity) against fvm1d.rhs on the uniform
    mesh of the same cell size, same flux name, reconstruction of the same order (extrapol2d1 / extrapol1, extrapol2dk(k) /
    extrapolk(k)), same boundary conditions along the direction, periodic or wall closure across it"""
    it = chk.interp
    PAIRS = [("per", "per"), ("sym", "sym"), ("insub", "outsub"), ("outsub", "insub"), ("insup", "outsup")]
    for numname, haskappa in (("extrapol2d1", False), ("extrapol2dk", True)):
        for dn in ("x", "y"):
            for b0, b1 in PAIRS:
                for tv in ("per", "sym"):
                    if chk.tier == "quick" and haskappa and not ((dn, b0, b1, tv) in (("x", "per", "per", "sym"), ("y", "insub", "outsub", "per"))):
                        continue
                    if chk.tier == "quick" and not haskappa and not (tv == "sym" and (b0, b1) in (("per", "per"), ("insub", "outsub"), ("sym", "sym"))
                                                                     or tv == "per" and (b0, b1) in (("per", "per"), ("insup", "outsup"))):
                        continue
                    cfg = "fvm2dcart-vs-fvm1d/%s/along-%s/%s-%s/across=%s" % (numname, dn, b0, b1, tv)
                    chk.configs.append(cfg)
                    rp = {"fn": "agree1d_clause", "args": {"num": numname, "direction": dn, "bc": [b0, b1], "transverse": tv}}

                    def op(numname=numname, haskappa=haskappa, dn=dn, b0=b0, b1=b1, tv=tv, rp=rp):
                        nx, ny = z3.Int("nx"), z3.Int("ny")
                        lx, ly = z3.Real("lx"), z3.Real("ly")
                        assume(z3.And(nx >= 1, ny >= 1, lx > 0, ly > 0))
                        a, b = z3.Int("a"), z3.Int("b")           # generic cell: row a, column b
                        assume(z3.And(a >= 0, a < ny, b >= 0, b < nx))
                        lemma("index-products", z3.And(a * nx >= 0, (ny - 1 - a) * nx >= 0, (nx - 1) * (ny - 1) >= 0))
                        for t in (0, 1, 2):
                            lemma("index-products/a/%d" % t,
                                  z3.And(z3.Implies(a >= t, (a - t) * nx >= 0), z3.Implies(a <= t, (t - a) * nx >= 0),
                                         z3.Implies(a <= ny - 1 - t, (ny - 1 - t - a) * nx >= 0),
                                         z3.Implies(a >= ny - 1 - t, (a - (ny - 1 - t)) * nx >= 0)))
                        alongx = dn == "x"
                        nl, ll, il = (nx, lx, b) if alongx else (ny, ly, a)     # 1-D problem: number of cells, length, generic cell
                        end0, end1, t0, t1 = ("left", "right", "bottom", "top") if alongx else ("bottom", "top", "left", "right")
                        bc2 = {end0: bc_value(b0), end1: bc_value(b1), t0: bc_value(tv), t1: bc_value(tv)}
                        bc2 = {k: bc2[k] for k in ("left", "right", "bottom", "top")}
                        for v in bc2.values():
                            for k, x in v.items():
                                if k != "type":
                                    assume(x > 0)
                        mesh2 = it.call(get(chk, "flowdyn.mesh2d", "mesh2d"), [nx, ny, lx, ly], {})
                        mesh1, hcell, x0 = abstract_unimesh(chk, nl)
                        assume(hcell * z3.ToReal(nl) == ll)             # same cell size along the direction
                        m2, info = make_model(chk, "euler2d")
                        m1, _ = make_model(chk, "euler1d")
                        kap = z3.Real("kappa")
                        num2 = it.call(get(chk, "flowdyn.xnum", numname), [kap] if haskappa else [], {})
                        num1 = make_num(chk, "extrapolk", kappa=kap) if haskappa else make_num(chk, "extrapol1")
                        d2 = it.call(get(chk, "flowdyn.modeldisc", "fvm2dcart"), [m2, mesh2, num2, bc2], {})
                        d1 = make_disc1d(chk, m1, mesh1, num1, bcL=bc2[end0], bcR=bc2[end1])
                        Q1 = [_pos(A.input_array("rhoQ", nl)), A.input_array("mQ", nl), A.input_array("EQ", nl)]
                        q1 = [x._snapshot_at() for x in Q1]
                        lift = (lambda w, z=None: [w[0], w[1], z3.RealVal(0), w[2]]) if alongx else \
                               (lambda w, z=None: [w[0], z3.RealVal(0), w[1], w[2]])
                        n = nx * ny

                        def comp(k):
                            def val(r, c):
                                i = c if alongx else r
                                return lift([T.treal(f(i)) for f in q1])[k]
                            return cell_array(n, nx, val)
                        Q2 = [comp(0), A.Sym2D([comp(1), comp(2)]), comp(3)]
                        f2, f1 = make_field(chk, m2, mesh2, Q2), make_field(chk, m1, mesh1, Q1)
                        across = (lambda nrm: nrm[0] == 0) if alongx else (lambda nrm: nrm[1] == 0)
                        bcc = BC2D(real_for=across)
                        it.contracts[QN_BC] = bcc
                        it.active_contracts.add(QN_BC)
                        it.contracts[QN_C2P] = C2PContract(lifts=[lift])
                        it.active_contracts.add(QN_C2P)
                        c2 = FluxContractPair(info)
                        it.contracts[QN_FLUX] = c2
                        it.active_contracts.add(QN_FLUX)
                        try:
                            with lazy_safety():
                                res2 = [r.copy() for r in it.call(it.getattr(d2, "rhs"), [f2], {})]
                                res1 = it.call(it.getattr(d1, "rhs"), [f1], {})
                        finally:
                            for q in (QN_BC, QN_C2P, QN_FLUX):
                                it.active_contracts.discard(q)
                        rec2, rec1 = c2.c2.last, c2.c1.last
                        prove("flux-evaluated-once-in-each-run", T.band(c2.c2.calls == 1, c2.c1.calls == 1), replay=rp)
                        calls2 = [c for c in bcc.calls if c["two_d"]]
                        calls1 = [c for c in bcc.calls if not c["two_d"]]
                        names = ("rho", "ux", "uy", "p")
                        # ---- faces along the direction: images of the 1-D faces -----------------------------------------------------------------
                        for dF in (0, 1):
                            F = il + dF
                            fidx2 = xface(nx, a, b + dF) if alongx else yface(nx, ny, a + dF, b)
                            nrm = EX if alongx else EY
                            a2, a1 = rec2["args_at"](fidx2), rec1["args_at"](F)
                            L1, R1 = a1[:3], a1[3:6]
                            # boundary-condition clause instances at the two ends (1-D calls: [left, right])
                            if calls1:
                                for side, dvec, c1_ in ((end0, SIDES[end0], calls1[0]), (end1, SIDES[end1], calls1[1])):
                                    cc2 = bcc.by_side(calls2, {k_: v_ for k_, v_ in bc2.items() if not (across(SIDES[k_]))}, side)
                                    if cc2 is None:
                                        raise T.EngineError("boundary-condition calls of the 2-D run do not correspond to its sides")
                                    pos = a if alongx else b
                                    nrm2, w2, o2 = bcc.at(cc2, pos)
                                    w1, o1 = c1_["data"], [T.treal(x) for x in c1_["out"]]
                                    d1v = dvec[0] if alongx else dvec[1]
                                    rel = z3.And(*([T.tz(c1_["name"] == cc2["name"]), T.tz(c1_["dir"] == d1v)] +
                                                   [x == v for x, v in zip(nrm2, dvec)] +
                                                   [y == x for x, y in zip(lift(w1), w2)] +
                                                   [T.treal(cc2["param"].get(k)) == T.treal(v) for k, v in c1_["param"].items() if k != "type"]))
                                    T.cur().add_fact(z3.Implies(rel, z3.And(*[y == x for x, y in zip(lift(o1), o2)])))
                                    if dF == 0:
                                        lemma("bc-arguments-are-images/%s" % side, rel)
                            want = lift(L1) + lift(R1)
                            for j, (x, y) in enumerate(zip(want, a2[:8])):
                                lemma("face-states/along%d/%s[%s]" % (dF, "L" if j < 4 else "R", names[j % 4]), y == x)
                            rel = z3.And(*([y == x for x, y in zip(want, a2[:8])] + [x == v for x, v in zip(a2[8:], nrm)] +
                                           [y == x for x, y in zip(rec1["params"], rec2["params"])] + [T.tz(rec1["name"] == rec2["name"])]))
                            g2 = [T.treal(g.at(fidx2)) for g in rec2["G"]]
                            g1 = [T.treal(g.at(F)) for g in rec1["G"]]
                            T.cur().add_fact(z3.Implies(rel, z3.And(*[y == x for x, y in zip(lift(g1), g2)])), trigger=g2[0])
                            lemma("flux-arguments-are-images/along%d" % dF, rel)
                        # ---- faces across the direction: both see the same pair of states, their fluxes cancel ------------------------------------
                        fa0 = yface(nx, ny, a, b) if alongx else xface(nx, a, b)
                        fa1 = yface(nx, ny, a + 1, b) if alongx else xface(nx, a, b + 1)
                        x0_, x1_ = rec2["args_at"](fa0), rec2["args_at"](fa1)
                        for j, (x, y) in enumerate(zip(x0_[:8], x1_[:8])):
                            lemma("face-states/across/%s[%s]" % ("L" if j < 4 else "R", names[j % 4]), y == x)
                        same = z3.And(*[y == x for x, y in zip(x0_, x1_)])
                        for g in rec2["G"]:
                            g1_ = T.treal(g.at(fa1))
                            T.cur().add_fact(z3.Implies(same, g1_ == T.treal(g.at(fa0))), trigger=g1_)
                        lemma("transverse-faces-see-the-same-states", same)
                        r2f, r1f = flat_at(res2, a * nx + b), flat_at(res1, il)
                        kn, kt = (1, 2) if alongx else (2, 1)
                        prove("mass-residual-is-the-1-D-one", r2f[0] == r1f[0], replay=rp)
                        prove("momentum-residual-is-the-1-D-one", r2f[kn] == r1f[1], replay=rp)
                        prove("transverse-momentum-untouched", r2f[kt] == 0, replay=rp)
                        prove("energy-residual-is-the-1-D-one", r2f[3] == r1f[2], replay=rp)
                        canary("canary", r2f[0] == r2f[0] + 1)
                    chk.run(cfg, op)


class FluxContractPair:
    """euler1d and euler2d share the method euler.numflux: dispatch on the model object to the (opaque) contract of its kind"""

    def __init__(self, info):
        from contracts.flux_contract import FluxContract
        self.c2 = FluxContract("euler2d", info, clauses=(), requires=False, opaque=True)
        self.c1 = FluxContract("euler1d", info, clauses=(), requires=False, opaque=True)

    def apply(self, interp, f, bound):
        two_d = bound["self"].cls.name == "euler2d"
        return (self.c2 if two_d else self.c1).apply(interp, f, bound)


def c2p_leaves(chk):
    """the clauses of the cons2prim contract against the real function"""
    it = chk.interp
    for tname, vmap in (("transpose", st_transpose), ("reflect-x", lambda W: st_reflect(W, 0)), ("reflect-y", lambda W: st_reflect(W, 1))):
        def leaf(vmap=vmap):
            n = z3.Int("n")
            assume(n >= 1)
            m, info = make_model(chk, "euler2d")
            Q = cons_arrays(n)
            i = z3.Int("i")
            assume(z3.And(i >= 0, i < n))
            with lazy_safety():
                P1 = it.call(it.getattr(m, "cons2prim"), [Q], {})
                P2 = it.call(it.getattr(m, "cons2prim"), [vmap(Q)], {})
            want, got = flat_at(vmap(P1), i), flat_at(P2, i)
            for k, cn in enumerate(("rho", "ux", "uy", "p")):
                prove("commutes[%s]" % cn, got[k] == want[k])
            prove("pointwise", all(reads_only_index(x, i) for x in flat_at(P1, i)))
            canary("canary", got[0] == got[0] + 1)
        chk.run("cons2prim/%s" % tname, leaf)
    for dn in ("x", "y"):
        def leaf1(dn=dn):
            n = z3.Int("n")
            assume(n >= 1)
            m2, info = make_model(chk, "euler2d")
            m1, _ = make_model(chk, "euler1d")
            Q = [_pos(A.input_array("rhoQ", n)), A.input_array("mQ", n), A.input_array("EQ", n)]
            zero = A.full(n, 0)
            Q2 = [Q[0], A.Sym2D([Q[1], zero] if dn == "x" else [zero, Q[1]]), Q[2]]
            i = z3.Int("i")
            assume(z3.And(i >= 0, i < n))
            with lazy_safety():
                P1 = it.call(it.getattr(m1, "cons2prim"), [Q], {})
                P2 = it.call(it.getattr(m2, "cons2prim"), [Q2], {})
            w1, w2 = flat_at(P1, i), flat_at(P2, i)
            kn, kt = (1, 2) if dn == "x" else (2, 1)
            prove("density", w2[0] == w1[0])
            prove("normal-velocity", w2[kn] == w1[1])
            prove("no-transverse-velocity", w2[kt] == 0)
            prove("pressure", w2[3] == w1[2])
            prove("pointwise", all(reads_only_index(x, i) for x in w1))
        chk.run("cons2prim/one-dimensional/%s" % dn, leaf1)


def build(chk):
    chk.assumptions += [
        "machine arithmetic treated as mathematical (real) arithmetic",
        "sqrt / x**y are uninterpreted functions with instantiated axioms (equal arguments give equal values)",
        "fluxes of the statement: centered, hlle (euler2d also inherits hllc/centeredmassflow from the 1-D class; they ignore the "
        "face normal and are excluded, as in C02); boundary tags of the statement: per, sym, insub, insup, outsub, outsup; "
        "insup with an explicit 'angle' parameter is not covered (cos/sin of the transformed angle)",
        "2-D vs 1-D: 'data that do not vary along one direction' is read with zero transverse velocity (with a transverse "
        "velocity the energy flux differs from the 1-D one and the transverse momentum is advected)",
    ]
    flux_leaves(chk)
    bc_leaves(chk)
    c2p_leaves(chk)
    operator_symmetries(chk)
    one_dimensional_agreement(chk)
    # the 2-D mesh contract the harnesses rely on (index tables, orientations, outward normals handed to the boundary conditions)
    from . import C20
    chk.include(C20, r"^mesh2d$", "uses:C20")
