"""C17 — state conversions round-trip and named variables obey their definitions.

The variable names are enumerated from each model's `_vardict` registry (source); each is
evaluated through the real lookup `model.nameddata(name, qdata)` on conservative data built
from an admissible symbolic primitive state, and compared with the definition from the
statement at a generic cell.  Shape clause: a scalar quantity is one array of length ncell.
"""
import z3
from pyvc import terms as T, arrays as A
from pyvc.framework import prove, canary, assume, watch, lemma
from .common import *


def cons_from_prim(kind, P, info):
    """conservative data from primitive arrays, written from the definitions"""
    ew = A.elementwise
    if kind in ("convection", "burgers"):
        return [P[0].copy()]
    if kind == "shallowwater":
        return [P[0].copy(), ew(T.mul, [P[0], P[1]])]
    g = info["gamma"]
    if kind == "euler2d":
        r, V, p = P
        q2 = ew(lambda a, b: T.add(T.mul(a, a), T.mul(b, b)), [V.rows[0], V.rows[1]])
        mom = A.Sym2D([ew(T.mul, [r, V.rows[0]]), ew(T.mul, [r, V.rows[1]])])
    else:
        r, u, p = P
        q2 = ew(lambda a: T.mul(a, a), [u])
        mom = ew(T.mul, [r, u])
    with T.no_safety():
        E = ew(lambda rr, pp, qq: T.add(T.div(pp, T.sub(g, 1)), T.mul(T.div(1, 2), T.mul(rr, qq))), [r, p, q2])
    return [r.copy(), mom, E]


def definitions(kind, W, info, xc=None):
    """name -> (spec value(s) at the cell, 'scalar' | 'vector') from the statement, in terms of the
    primitive state W (flat list of terms)"""
    d = {}
    if kind == "convection":
        return {"q": (W[0], "scalar")}
    if kind == "burgers":
        return {}
    if kind == "shallowwater":
        h, u = W
        return {"height": (h, "scalar"), "massflow": (h * u, "scalar"), "velocity": (u, "scalar")}
    g = info["gamma"]
    with T.no_safety():
        if kind == "euler2d":
            r, ux, uy, p = W
            v2 = ux * ux + uy * uy
            vmag = T.sqrt(v2)
            d["velocity"] = ([ux, uy], "vector")
            d["velocity_x"] = (ux, "scalar")
            d["velocity_y"] = (uy, "scalar")
        else:
            r, u, p = W
            v2 = u * u
            vmag = z3.If(u >= 0, u, -u)
            d["velocity"] = (u, "scalar")
            d["massflow"] = (r * u, "scalar")
        a = T.sqrt(g * p / r)
        mach = vmag / a
        d["density"] = (r, "scalar")
        d["pressure"] = (p, "scalar")
        d["velocitymag"] = (vmag, "scalar")
        d["kinetic_energy"] = (r * v2 / 2, "scalar")
        d["kinetic-energy"] = d["kinetic_energy"]
        d["asound"] = (a, "scalar")
        d["mach"] = (mach, "scalar")
        enth = g / (g - 1) * p / r
        d["enthalpy"] = (enth, "scalar")
        d["htot"] = (enth + v2 / 2, "scalar")
        d["rttot"] = ((g - 1) / g * (enth + v2 / 2), "scalar")
        m2 = v2 / (g * p / r)
        d["ptot"] = (p * T.rpow(1 + (g - 1) / 2 * m2, g / (g - 1)), "scalar")
        d["entropy"] = (T.log(p / T.rpow(r, g)) / (g - 1), "scalar")
        if kind == "nozzle" and xc is not None:
            d["massflow"] = (r * u * info["A"](xc), "scalar")
    return d


def build(chk):
    it = chk.interp
    chk.assumptions += [
        "machine arithmetic treated as mathematical (real) arithmetic",
        "sqrt, x**y (non-integer y) and log are uninterpreted functions with axioms instantiated at occurring terms "
        "(sqrt(x)^2=x, sqrt>=0; congruence); identities that need more than congruence use explicit lemma instances",
        "admissible states: rho>0, p>0 (h>0), gamma>1",
    ]
    for kind in MODEL_KINDS:
        names = []

        def enum(kind=kind):
            m, info = make_model(chk, kind)
            names.extend(sorted(m.attrs["_vardict"].attrs["dict"].keys()))
        chk.run("%s/enumerate" % kind, enum, always=True)
        chk.configs.append("%s: %s" % (kind, ",".join(names)))
        rp = {"fn": "state_clause", "args": {"kind": kind}}

        def roundtrip(kind=kind, rp=rp):
            n = z3.Int("n")
            assume(n >= 1)
            m, info = make_model(chk, kind)
            for k in ("gamma", "g", "a"):
                if k in info:
                    watch(k, info[k])
            P = prim_state(kind, n, "W")
            i = z3.Int("i")
            assume(z3.And(i >= 0, i < n))
            Wi = flat_at(P, i)
            for k, w in enumerate(Wi):
                watch("W%d" % k, w)
            Q = it.call(it.getattr(m, "prim2cons"), [P], {})
            P2 = it.call(it.getattr(m, "cons2prim"), [Q], {})
            W2 = flat_at(P2, i)
            if len(W2) != len(Wi):
                raise T.EngineError("cons2prim returned %d components" % len(W2))
            for k in range(len(Wi)):
                prove("cons2prim(prim2cons)[%d]" % k, W2[k] == Wi[k],
                      replay=dict(rp, args=dict(rp["args"], clause="roundtrip-prim", comp=k)))
            # the conservative state built from the definitions is what prim2cons returns
            Qs = cons_from_prim(kind, P, info)
            Qi, Qsi = flat_at(Q, i), flat_at(Qs, i)
            for k in range(len(Qi)):
                prove("prim2cons-definition[%d]" % k, Qi[k] == Qsi[k],
                      replay=dict(rp, args=dict(rp["args"], clause="prim2cons", comp=k)))
            # other direction, on conservative data that come from an admissible state
            P3 = it.call(it.getattr(m, "cons2prim"), [Qs], {})
            Q3 = it.call(it.getattr(m, "prim2cons"), [P3], {})
            Q3i = flat_at(Q3, i)
            for k in range(len(Qsi)):
                prove("prim2cons(cons2prim)[%d]" % k, Q3i[k] == Qsi[k],
                      replay=dict(rp, args=dict(rp["args"], clause="roundtrip-cons", comp=k)))
            canary("canary", W2[0] == W2[0] + 1)
        chk.run("%s/roundtrip" % kind, roundtrip)

        for name in names:
            def var(kind=kind, name=name, rp=rp):
                n = z3.Int("n")
                assume(n >= 1)
                m, info = make_model(chk, kind)
                for k in ("gamma", "g", "a"):
                    if k in info:
                        watch(k, info[k])
                P = prim_state(kind, n, "W")
                i = z3.Int("i")
                assume(z3.And(i >= 0, i < n))
                Wi = flat_at(P, i)
                for k, w in enumerate(Wi):
                    watch("W%d" % k, w)
                Q = cons_from_prim(kind, P, info)
                xc = None
                if kind == "nozzle":
                    # the nozzle needs its discretisation hook: centres of an abstract mesh
                    mesh = abstract_mesh1d(chk, n)
                    it.call(it.getattr(m, "initdisc"), [mesh], {})
                    xc = T.treal(mesh.attrs["xc"].at(i))
                R = it.call(it.getattr(m, "nameddata"), [name, Q], {})
                defs = definitions(kind, Wi, info, xc)
                rpv = dict(rp, args=dict(rp["args"], clause="variable", name=name))
                if name not in defs:
                    T.cur().notes.append("variable %s/%s has no definition in the statement: shape only" % (kind, name))
                    prove("shape", isinstance(R, (A.SymArray, A.Sym2D)), replay=rpv)
                    return
                spec, shp = defs[name]
                if shp == "scalar":
                    ok = isinstance(R, A.SymArray)
                    prove("shape", bool(ok) and T.eq(R.length, n) if ok else False, replay=rpv,
                          note="one value per cell for scalar quantities")
                    if not ok:
                        return
                    val = T.treal(R.at(i))
                    extra_lemmas(kind, name, Wi, info)
                    prove("definition", val == spec, replay=rpv)
                else:
                    ok = isinstance(R, A.Sym2D) and R.nrows == len(spec)
                    prove("shape", bool(ok), replay=rpv)
                    if not ok:
                        return
                    for k, sp in enumerate(spec):
                        prove("definition[%d]" % k, T.treal(R.rows[k].at(i)) == sp, replay=rpv)
            chk.run("%s/var/%s" % (kind, name), var)


def extra_lemmas(kind, name, W, info):
    """lemma instances of general facts about sqrt that congruence alone does not give"""
    if kind == "euler2d" and name in ("velocitymag", "mach"):
        # sqrt(a^2 x)/a-type rearrangements: |rho V| = rho |V| for rho>0 (unique positive root)
        r, ux, uy, p = W
        with T.no_safety():
            a = T.sqrt((r * ux) * (r * ux) + (r * uy) * (r * uy))
            b = T.sqrt(ux * ux + uy * uy)
        lemma_pos_root(a, r * b)


def lemma_pos_root(x, y):
    """unique non-negative root: x,y>=0 and x^2==y^2 imply x==y (valid in the reals)"""
    x, y = T.treal(x), T.treal(y)
    assume(z3.Implies(z3.And(x >= 0, y >= 0, x * x == y * y), x == y))


