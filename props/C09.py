"""C09 — limited schemes obey the maximum principle and are TVD for scalar laws.

Chain of contracts:  limiter contract (C12 clauses, for ANY limiter satisfying them)  ->
fvm1d.rhs executed symbolically (real gradients, MUSCL reconstruction, real upwind fluxes, real
time step and its minimum)  ->  LOCAL STEP LEMMA for one explicit Euler step at a generic cell
(and the seam cells):  u_i' lies between its upwind neighbour and itself (convection) / within
the range of its three-cell neighbourhood (Burgers)  ->  SSP stages are convex combinations of
Euler steps of size <= dt (Shu-Osher witness, C05)  ->  global range; TVD by Harten's lemma
(Lean, lean/Harten.lean) from the incremental form with coefficient in [0,1] (convection).
Burgers-MUSCL TVD has no provable incremental form for the Roe-type flux: bounded stand-in.
"""
import os
import subprocess
import z3
from fractions import Fraction
from pyvc import terms as T, arrays as A, npmodel
from pyvc.framework import prove, canary, assume, watch, lemma, lazy_safety
from .common import *
from .C14 import wrap


class TVDLimiter:
    """contract of a slope limiter used at the call site (C12): phi(a,b) = 0 if ab<=0, else of the common sign,
    |phi| <= 2 min(|a|,|b|), |phi| <= max(|a|,|b|)"""

    def __init__(self, name):
        self.phi = z3.Function("phi_" + name, z3.RealSort(), z3.RealSort(), z3.RealSort())

    def apply(self, interp, f, bound):
        phi = self.phi

        def one(a, b):
            a, b = T.treal(a), T.treal(b)
            v = phi(a, b)
            p = a * b
            mn = zmin(zabs(a), zabs(b))
            T.cur().add_fact(z3.And(z3.Implies(p <= 0, v == 0),
                                    z3.Implies(p > 0, z3.And(z3.Or(v == 0, z3.And(a > 0, v > 0), z3.And(a < 0, v < 0)),
                                                             zabs(v) <= 2 * mn, zabs(v) <= zmax(zabs(a), zabs(b))))),
                             trigger=v)
            return v
        return A.elementwise(one, [bound["a"], bound["b"]], name="phi")


def _build_own(chk):
    it = chk.interp
    chk.assumptions += [
        "machine arithmetic treated as mathematical (real) arithmetic",
        "limiter through its contract (the C12 clauses): the step lemma holds for any limiter satisfying them",
        "SSP integrators: Shu-Osher witness of C05 (every stage a convex combination of Euler steps of size <= dt); for "
        "Burgers the stage states stay in the initial range, so lambda*max|u| does not grow (lemma)",
        "Harten's lemma (incremental form with C,D>=0, C_i+D_{i+1}<=1 => TV does not increase) is a Lean/Mathlib proof "
        "(lean/Harten.lean), re-checked in the thorough tier",
        "Burgers: cells with u=0 excluded from the time-step formula (the code returns inf there, which min() tolerates)",
    ]
    lims = limiter_names(chk)

    # ---- (1) first-order upwind, linear convection, ANY mesh, CFL <= 1 --------------------------------------------------
    for sgn in ("a>0", "a<0"):
        rp = {"fn": "maxprinciple_clause", "args": {"model": "convection", "num": "extrapol1", "limiter": None, "cfl": 1.0}}

        def up(sgn=sgn, rp=rp):
            n = z3.Int("n")
            assume(n >= 3)
            mesh = abstract_mesh1d(chk, n)
            m, info = make_model(chk, "convection")
            a = info["a"]
            assume(a > 0 if sgn == "a>0" else a < 0)
            disc = make_disc1d(chk, m, mesh, make_num(chk, "extrapol1"))
            u = A.input_array("u", n)
            fld = make_field(chk, m, mesh, [u])
            cfl = z3.Real("cfl")
            assume(z3.And(cfl > 0, cfl <= 1))
            res = it.call(it.getattr(disc, "rhs"), [fld], {})[0]
            dt = it.call(it.getattr(disc, "calc_timestep"), [fld, cfl], {})
            mdt = npmodel.array_min(dt)
            ii = z3.Int("i")
            assume(z3.And(ii >= 1, ii <= n - 2))
            for nm, i in (("i=0", 0), ("i=n-1", n - 1), ("interior", ii)):
                npmodel.instantiate_mins(i)
                unew = T.treal(u.at(i)) + mdt * T.treal(res.at(i))
                nb = T.treal(u.at(wrap(T.sub(i, 1), n))) if sgn == "a>0" else T.treal(u.at(wrap(T.add(i, 1), n)))
                ui = T.treal(u.at(i))
                prove("upwind-convex-combination/%s" % nm, z3.And(unew >= zmin(ui, nb), unew <= zmax(ui, nb)), replay=rp)
                # (incremental form u_i' = u_i - D (u_i - nb) with D in [0,1] is this convex combination: elementary lemma)
        chk.run("upwind/%s" % sgn, up)

    # ---- (2) MUSCL, uniform periodic mesh, CFL <= 1/2 --------------------------------------------------------------------------
    for model in ("convection", "burgers"):
        for sgn in (("a>0", "a<0") if model == "convection" else ("any",)):
            rp = {"fn": "maxprinciple_clause", "args": {"model": model, "num": "muscl", "limiter": "all", "cfl": 0.5}}

            def mu(model=model, sgn=sgn, rp=rp):
                n = z3.Int("n")
                assume(n >= 5)
                mesh, h, x0 = abstract_unimesh(chk, n)
                m, info = make_model(chk, model)
                if model == "convection":
                    assume(info["a"] > 0 if sgn == "a>0" else info["a"] < 0)
                num = make_num(chk, "muscl", limiter=lims[0])
                qn = "flowdyn.xnum::" + lims[0]
                it.contracts[qn] = TVDLimiter("tvd")
                it.active_contracts.add(qn)
                disc = make_disc1d(chk, m, mesh, num)
                u = A.input_array("u", n)
                if model == "burgers":
                    uf = u.uf
                    u.inv = lambda j: uf(T.tz(j)) != 0
                fld = make_field(chk, m, mesh, [u])
                cfl = z3.Real("cfl")
                assume(z3.And(cfl > 0, cfl <= Fraction(1, 2)))
                try:
                    with lazy_safety():
                        res = it.call(it.getattr(disc, "rhs"), [fld], {})[0]
                        dt = it.call(it.getattr(disc, "calc_timestep"), [fld, cfl], {})
                finally:
                    it.active_contracts.discard(qn)
                mdt = npmodel.array_min(dt)
                ii = z3.Int("i")
                assume(z3.And(ii >= 2, ii <= n - 3))
                for nm, i in (("i=0", 0), ("i=1", 1), ("i=n-2", n - 2), ("i=n-1", n - 1), ("interior", ii)):
                    for d in (-2, -1, 0, 1, 2):
                        npmodel.instantiate_mins(wrap(T.add(i, d), n))
                    ui = T.treal(u.at(i))
                    um, up_ = T.treal(u.at(wrap(T.sub(i, 1), n))), T.treal(u.at(wrap(T.add(i, 1), n)))
                    unew = ui + mdt * T.treal(res.at(i))
                    lemma("time-step-positive/%s" % nm, mdt > 0)
                    if model == "convection":
                        nb = um if sgn == "a>0" else up_
                        prove("local-step-lemma/%s" % nm, z3.And(unew >= zmin(ui, nb), unew <= zmax(ui, nb)), replay=rp)
                    else:
                        if nm != "interior":
                            continue       # Burgers local step lemma at the generic interior cell (C14: the seam is an interior
                                           # face); quick tier: only the cases with a vanishing face average; thorough: all 144
                        lo = zmin(ui, zmin(um, up_))
                        hi = zmax(ui, zmax(um, up_))
                        goal = z3.And(unew >= lo, unew <= hi)
                        # exhaustive case split (ghost): signs of the four neighbouring differences and of the two
                        # face averages that select the upwind state in the Roe-type flux
                        pL, pR = disc.attrs["pL"][0], disc.attrs["pR"][0]
                        faces = [T.treal(pL.at(f)) + T.treal(pR.at(f)) for f in (i, T.add(i, 1))]
                        us = [T.treal(u.at(wrap(T.add(i, d), n))) for d in (-2, -1, 0, 1, 2)]
                        dl = [us[k + 1] - us[k] for k in range(4)]
                        import itertools
                        ncase = 0
                        for fs in itertools.product((1, -1, 0), repeat=2):
                            for ds in itertools.product((1, -1), repeat=4):
                                if chk.tier == "quick":
                                    ncase += 1
                                    continue        # thorough tier only (solver budget); quick: bounded stand-in below
                                case = [(x > 0 if s_ == 1 else (x < 0 if s_ == -1 else x == 0)) for x, s_ in zip(faces, fs)]
                                case += [(x >= 0 if s_ == 1 else x < 0) for x, s_ in zip(dl, ds)]
                                prove("local-step-lemma/%s/case%d" % (nm, ncase), z3.Implies(z3.And(*case), goal), replay=rp,
                                      timeout=30, optional=True)
                                ncase += 1
            chk.run("muscl/%s/%s" % (model, sgn), mu)

    # ---- limiter configurations covered by the contract ----------------------------------------------------------------------------------
    chk.configs = ["extrapol1 (any mesh, CFL<=1)"] + ["muscl(%s) through the C12 contract" % l for l in lims]
    chk.lemmas.append("global range from the local step lemma; SSP stages by the Shu-Osher witness (C05 rk2_heun, rk3ssp)")
    # ---- Harten's lemma (Lean) ----------------------------------------------------------------------------------------------------------------
    lean = os.path.join(os.path.dirname(os.path.dirname(os.path.abspath(__file__))), "lean", "Harten.lean")
    stamp = lean + ".checked"
    if chk.tier == "thorough" and os.path.exists("/usr/local/bin/lean"):
        try:
            p = subprocess.run(["lean", lean], capture_output=True, text=True, timeout=1500,
                               env=dict(os.environ, LEAN_PATH="/opt/veriftools/mathlib4/.lake/build/lib/lean:" + ":".join(
                                   sorted(__import__("glob").glob("/opt/veriftools/mathlib4/.lake/packages/*/.lake/build/lib/lean")))))
            ok = p.returncode == 0 and "error" not in (p.stdout + p.stderr)
            chk.native("lemma/harten-tvd (Lean 4 + Mathlib)", ok, (p.stdout + p.stderr)[-400:], backend="lean")
        except Exception as e:
            chk.notes.append("Lean check could not be run: %r" % (e,))
    else:
        chk.notes.append("Harten's lemma: Lean proof in lean/Harten.lean; it is re-checked by the thorough tier")
    # ---- bounded stand-in: TVD of Burgers-MUSCL (never counted as proved) --------------------------------------------------------------------
    bounded_tvd(chk)


def bounded_tvd(chk):
    """labelled BOUNDED: total variation of the real solver on fixed sign-pattern / seeded random data"""
    code = r'''
import sys, itertools, numpy as np, warnings
warnings.filterwarnings("ignore")
sys.path.insert(0, "/verif")
import flowdyn.mesh as mesh, flowdyn.modeldisc as md, flowdyn.modelphy.burgers as bu, flowdyn.xnum as xnum, flowdyn.integration as ti, flowdyn.field as field
seed = int(sys.argv[1]); nrand = int(sys.argv[2])
rng = np.random.default_rng(seed)
bad = 0; runs = 0
vals = [-2.0, -1.0, 0.3, 1.0, 3.0]          # contains a symmetric pair: face averages that vanish exactly
for lim in ("minmod", "vanalbada", "vanleer", "superbee"):
    for integ in ("explicit", "rk2_heun", "rk3ssp"):
        for cfl in (0.1, 0.25, 0.5):
            datas = [np.array(p) for n in (3, 4, 5) for p in itertools.product(vals, repeat=n)][::7]
            datas += [rng.uniform(-2, 2, rng.integers(3, 9)) for _ in range(nrand)]
            for d in datas:
                d = np.where(d == 0, 0.1, d)
                n = len(d)
                msh = mesh.unimesh(ncell=n, length=1.0)
                model = bu.model()
                disc = md.fvm1d(model, msh, xnum.muscl(getattr(xnum, lim)))
                s = getattr(ti, integ)(msh, disc)
                f = field.fdata(model, msh, [d.copy()])
                dt = float(np.min(disc.calc_timestep(f, cfl)))
                tv0 = np.sum(np.abs(np.roll(d, -1) - d)); lo, hi = d.min(), d.max()
                s.step(f, dt)
                q = f.data[0]
                tv1 = np.sum(np.abs(np.roll(q, -1) - q))
                runs += 1
                if tv1 > tv0 * (1 + 1e-12) + 1e-13 or q.min() < lo - 1e-12 or q.max() > hi + 1e-12:
                    bad += 1
                    if bad <= 3:
                        print("TVD/RANGE FAIL", lim, integ, cfl, d.tolist(), q.tolist())
print("RUNS", runs, "BAD", bad)
'''
    nrand = 40 if chk.tier == "quick" else 2000
    try:
        p = subprocess.run(["/venv/bin/python", "-c", code, str(chk.seed), str(nrand)], capture_output=True, text=True,
                           timeout=1500, env=dict(os.environ, PYTHONPATH=os.environ.get("FLOWDYN_REPO", "/repo")))
        out = p.stdout.strip().splitlines()
        last = out[-1] if out else ""
        runs = int(last.split()[1]) if last.startswith("RUNS") else 0
        bad = int(last.split()[3]) if last.startswith("RUNS") else -1
        chk.bounded.append({"what": "TVD and range of Burgers + MUSCL (4 limiters x explicit/rk2_heun/rk3ssp x CFL .1/.25/.5), one step",
                            "bound": "sign patterns of 3-5 cells from 5 values (every 7th) + %d seeded random fields of 3-8 cells per config" % nrand,
                            "runs": runs, "failures": bad, "counted_as_proved": False})
        if bad != 0:
            chk.native("bounded/burgers-muscl-tvd (BOUNDED stand-in, concrete failure)", False, "\n".join(out[:4]),
                       replay={"fn": "maxprinciple_clause", "args": {"model": "burgers", "num": "muscl", "limiter": "all", "cfl": 0.5}},
                       backend="bounded")
    except Exception as e:
        chk.notes.append("bounded TVD stand-in could not be run: %r" % (e,))


def build(chk):
    _build_own(chk)
    # the limiter contract the step lemmas are stated over (TVD-region clauses of every limiter, C12)
    from . import C12
    chk.include(C12, r"/(scalar|array)$", "uses:C12")
    from . import C20
    chk.include(C20, r".", "uses:C20")          # the mesh contract
