"""C02 — numerical fluxes are consistent, mirror-symmetric and upwind (DESIGN §6 C02).

Every registered flux of every model is enumerated from the source (methoddict
registries), executed symbolically on arrays of symbolic length through the real
`model.numflux` dispatch, and checked at a generic face index against contracts taken from
the statement: consistency with the physical flux, mirror symmetry, upwinding, safety.
"""
import z3
from pyvc import terms as T, arrays as A
from pyvc.framework import prove, canary, assume, watch, lemma
from .common import *

UPWIND = {"convection": [None], "burgers": [None], "shallowwater": ["hll"],
          "euler1d": ["hlle", "hllc"], "nozzle": ["hlle", "hllc"], "euler2d": ["hlle"]}
# fluxes inherited by euler2d from the 1-D class that ignore the face normal (DESIGN §5.8)
EXCLUDED = {("euler2d", "hllc"), ("euler2d", "centeredmassflow")}


def _mk_samples():
    import itertools
    out = {}
    sc = [("1", "0.3", "1"), ("1", "-0.7", "2.5"), ("0.125", "2.5", "0.1"), ("3", "-3.1", "10"), ("1000", "0.01", "0.001"),
          ("1", "4", "1"), ("2", "-5", "0.5"), ("1", "0", "1")]
    e = []
    for a, b in itertools.product(sc, sc):
        e.append({"WL0": a[0], "WL1": a[1], "WL2": a[2], "WR0": b[0], "WR1": b[1], "WR2": b[2], "gamma": "1.4"})
    e += [dict(x, gamma="1.1") for x in e[:16]] + [dict(x, gamma="5/3") for x in e[16:32]]
    out["euler1d"] = out["nozzle"] = e
    e2 = []
    for a, b in itertools.product(sc, sc):
        e2.append({"WL0": a[0], "WL1": a[1], "WL2": "0.4", "WL3": a[2], "WR0": b[0], "WR1": b[1], "WR2": "-1.3", "WR3": b[2],
                   "gamma": "1.4"})
        e2.append({"WL0": a[0], "WL1": "0.4", "WL2": a[1], "WL3": a[2], "WR0": b[0], "WR1": "-1.3", "WR2": b[1], "WR3": b[2],
                   "gamma": "1.4"})
    out["euler2d"] = e2
    sw = [("1", "0.3"), ("2", "-0.7"), ("0.125", "2.5"), ("3", "-8"), ("1000", "0.01"), ("1", "7"), ("1", "0"), ("0.5", "-2")]
    out["shallowwater"] = [{"WL0": a[0], "WL1": a[1], "WR0": b[0], "WR1": b[1], "g": "9.81"} for a, b in itertools.product(sw, sw)]
    sc1 = ["1", "-1", "0", "2.5", "-0.3", "1e6", "-1e-3"]
    out["burgers"] = [{"WL0": a, "WR0": b} for a, b in itertools.product(sc1, sc1)]
    out["convection"] = [{"WL0": a, "WR0": b, "a": c} for a, b in itertools.product(sc1, sc1) for c in ("1.5", "-2")]
    return out


SAMPLES = _mk_samples()
# strong-jump state pairs (pressure ratio > 1e4, gamma = 1.1) for which the Einfeldt estimates are
# not ordered around the contact speed (found numerically, 2026-09-26); tie-break inputs only
_W = [("1.1", "1.3269976450890857", "1.2718770705001154", "0.0013260163241604556", "24.505510994980103",
       "-0.3581089490336043", "219.55970937684992"),
      ("1.1", "0.4932256300652893", "19.55657290438434", "220.50853343533015", "0.026483624706317353",
       "6.3731562963419295", "0.008053420581003402"),
      ("1.1", "41.55636401272099", "0.15837979821105644", "0.0015751586940679773", "653.0552896745369",
       "-0.4517073576823066", "659.4626463460837"),
      ("1.1", "2.8238108817848704", "-2.707955592809184", "636.7256952630066", "0.12176562498897749",
       "-10.747471305036346", "0.09910429506624926")]
SEL_SAMPLES = [{"gamma": w[0], "WL0": w[1], "WL1": w[2], "WL2": w[3], "WR0": w[4], "WR1": w[5], "WR2": w[6]} for w in _W] \
    + SAMPLES["euler1d"][:40]


def watch_state(tag, W):
    for k, w in enumerate(W):
        watch("%s%d" % (tag, k), w)


def watch_params(info):
    for k in ("gamma", "g", "a"):
        if k in info:
            watch(k, info[k])


def roe_speeds(kind, WL, WR, info, normal, H=None, i=None):
    """(uL-cL, uL+cL, uR-cR, uR+cR, uRoe-cRoe, uRoe+cRoe) from the definitions.

    The Roe weight w = sqrt(rhoR/rhoL) and the Roe sound speed c~ are defined by their
    characterisation (positive root).  When the code's own values were cut to opaque symbols
    W, C, the same symbols are used here *after* proving (hint obligations against the code)
    that they satisfy the characterisation written with the definitions in this file:
    W>0, W^2 = rhoR/rhoL, C>0, C^2 = (gamma-1)(H~(W) - |u~(W)|^2/2)."""
    roots = {}
    if H is not None and i is not None:
        for (ph, var), ent in H.store.items():
            if ph == 1 and var == "Rrho" and isinstance(ent.get("opaque"), A.SymArray):
                roots["w"] = T.treal(ent["opaque"].at(i))
            if ph == 1 and var == "cRoe" and isinstance(ent.get("opaque"), A.SymArray):
                roots["ct"] = T.treal(ent["opaque"].at(i))
    r = _roe_speeds(kind, WL, WR, info, normal, roots)
    if "ct" in roots and "w" in roots:
        from pyvc.hints import _hint_obligation
        _hint_obligation("roe-characterisation", z3.And(roots["w"] > 0, r[8], roots["ct"] > 0, r[9]))
    return r[:6]


def _roe_speeds(kind, WL, WR, info, normal, roots=None):
    roots = roots or {}
    with T.no_safety():
        if kind == "shallowwater":
            g = info["g"]
            hL, uL = WL
            hR, uR = WR
            cL, cR = T.sqrt(g * hL), T.sqrt(g * hR)
            w = roots.get("w", T.sqrt(hR / hL))
            ut = (uL + w * uR) / (1 + w)
            ct = roots.get("ct", T.sqrt(g * (hL + hR) / 2))
            return (uL - cL, uL + cL, uR - cR, uR + cR, ut - ct, ut + ct, w, ct,
                    w * w == hR / hL, ct * ct == g * (hL + hR) / 2)
        g = info["gamma"]
        if kind == "euler2d":
            rL, uxL, uyL, pL = WL
            rR, uxR, uyR, pR = WR
            nx, ny = normal
            unL, unR = uxL * nx + uyL * ny, uxR * nx + uyR * ny
            qL2, qR2 = uxL * uxL + uyL * uyL, uxR * uxR + uyR * uyR
        else:
            rL, unL, pL = WL
            rR, unR, pR = WR
            qL2, qR2 = unL * unL, unR * unR
        cL, cR = T.sqrt(g * pL / rL), T.sqrt(g * pR / rR)
        HL = g * pL / rL / (g - 1) + qL2 / 2
        HR = g * pR / rR / (g - 1) + qR2 / 2
        w = roots.get("w", T.sqrt(rR / rL))
        un = (unL + w * unR) / (1 + w)
        Ht = (HL + w * HR) / (1 + w)
        if kind == "euler2d":
            uxt, uyt = (uxL + w * uxR) / (1 + w), (uyL + w * uyR) / (1 + w)
            q2 = uxt * uxt + uyt * uyt
        else:
            q2 = un * un
        ct = roots.get("ct", T.sqrt((g - 1) * (Ht - q2 / 2)))
        return (unL - cL, unL + cL, unR - cR, unR + cR, un - ct, un + ct, w, ct,
                w * w == rR / rL, ct * ct == (g - 1) * (Ht - q2 / 2))


def pos_root_link(x, y):
    """lemma instance (unique positive root): x,y>0 and x^2==y^2 imply x==y"""
    x, y = T.treal(x), T.treal(y)
    assume(z3.Implies(z3.And(x > 0, y > 0, x * x == y * y), x == y))


LAZY = {"hllc"}      # both np.where branches are evaluated: safety is relevance-aware there


def run_flux(chk, m, kind, name, pL, pR, dirv, H, phase):
    from pyvc.framework import lazy_safety
    if H is not None:
        H.phase = phase
    if name in LAZY:
        with lazy_safety():
            return call_numflux(chk, m, kind, name, pL, pR, dirv)
    return call_numflux(chk, m, kind, name, pL, pR, dirv)


def result_safety(label, name, F, i, H):
    from pyvc.framework import prove_result_safety
    if name not in LAZY:
        return
    terms = flat_at(F, i)
    if H is not None:
        for (ph, var), ent in H.store.items():
            v = ent.get("real")
            if isinstance(v, A.SymArray):
                terms.append(T.treal(v.at(i)))
    prove_result_safety(label, terms)


def finish_hints(chk, H):
    if H is not None:
        for u in H.unused():
            T.cur().notes.append("hint skipped (local not assigned): " + u)


def build(chk):
    from contracts import flux_hints
    it = chk.interp
    chk.assumptions += [
        "machine arithmetic treated as mathematical (real) arithmetic",
        "sqrt is an uninterpreted function with the axioms sqrt(x)>=0, sqrt(x)^2=x (x>=0) instantiated at occurring terms",
        "euler2d inherits numflux 'hllc' and 'centeredmassflow' from the 1-D class; they ignore the face normal and are "
        "excluded (the property lists centered/hlle for 2-D)",
    ]
    done_funcs = {}
    for kind in MODEL_KINDS:
        # enumerate the registered fluxes from the source
        names = []

        def enum(kind=kind):
            m, info = make_model(chk, kind)
            for nm in flux_names(m, kind):
                fobj = m.attrs["_numfluxdict"].attrs["dict"][nm] if nm is not None else it.getattr(m, "numflux").func
                names.append((nm, fobj))
        chk.run("%s/enumerate" % kind, enum, always=True)
        for name, fobj in names:
            if (kind, name) in EXCLUDED:
                continue
            key = (id(fobj), kind == "euler2d")
            if key in done_funcs:
                chk.notes.append("%s/%s is the same function object as %s: verified once" % (kind, name, done_funcs[key]))
                continue
            done_funcs[key] = "%s/%s" % (kind, name)
            for dn, _, nvec in normals(kind, 1):
                cfg = "%s/%s%s" % (kind, name or "default", ("/" + dn) if dn else "")
                chk.configs.append(cfg)
                rp = {"fn": "flux_clause", "args": {"kind": kind, "flux": name, "normal": nvec}}

                def consistency(kind=kind, name=name, nvec=nvec, rp=rp):
                    n = z3.Int("n")
                    assume(n >= 1)
                    m, info = make_model(chk, kind)
                    watch_params(info)
                    W = prim_state(kind, n, "W")
                    dirv = normals(kind, n)[0 if nvec in (None, (1, 0)) else 1][1]
                    H = flux_hints.install(it, kind, name, consistency=True)
                    F = run_flux(chk, m, kind, name, W, [w for w in W], dirv, H, 1)
                    it.hints = None
                    i = z3.Int("i")
                    assume(z3.And(i >= 0, i < n))
                    Wi = flat_at(W, i)
                    watch_state("WL", Wi)
                    watch_state("WR", Wi)
                    Fi = flat_at(F, i)
                    phys = physical_flux(kind, Wi, info, nvec)
                    if len(Fi) != len(phys):
                        raise T.EngineError("flux has %d components, expected %d" % (len(Fi), len(phys)))
                    for k, cn in enumerate(comp_names(kind)):
                        prove("consistency[%s]" % cn, Fi[k] == phys[k],
                              replay=dict(rp, args=dict(rp["args"], clause="consistency", comp=k)), samples=SAMPLES[kind])
                    result_safety("consistency", name, F, i, H)
                    finish_hints(chk, H)
                    canary("canary", Fi[0] == Fi[0] + 1)
                chk.run(cfg + "/consistency", consistency)

                def mirror(kind=kind, name=name, nvec=nvec, rp=rp):
                    n = z3.Int("n")
                    assume(n >= 1)
                    m, info = make_model(chk, kind)
                    watch_params(info)
                    if kind == "convection":
                        m2, _ = make_model(chk, kind, params={"a": -info["a"]})
                    else:
                        m2 = m
                    WL, WR = prim_state(kind, n, "L"), prim_state(kind, n, "R")
                    i = z3.Int("i")
                    assume(z3.And(i >= 0, i < n))
                    watch_state("WL", flat_at(WL, i))
                    watch_state("WR", flat_at(WR, i))
                    dirv = normals(kind, n)[0 if nvec in (None, (1, 0)) else 1][1]
                    H = flux_hints.install(it, kind, name, mirror=True)
                    F = run_flux(chk, m, kind, name, WL, WR, dirv, H, 1)
                    Fm = run_flux(chk, m2, kind, name, mirror_state(kind, WR), mirror_state(kind, WL), dirv, H, 2)
                    it.hints = None
                    Fi, Fmi = flat_at(F, i), flat_at(Fm, i)
                    for k, (cn, sg) in enumerate(zip(comp_names(kind), parity(kind))):
                        if name == "hllc" and H is not None and (1, "sM") in H.store:
                            # staged case analysis on the contact speed (ghost lemmas)
                            sm = T.treal(H.store[(1, "sM")]["opaque"].at(i))
                            for cname, cond in (("contact>0", sm > 0), ("contact<0", sm < 0), ("contact=0", sm == 0)):
                                lemma("mirror[%s]/%s" % (cn, cname), z3.Implies(cond, Fmi[k] == sg * Fi[k]))
                        prove("mirror[%s]" % cn, Fmi[k] == sg * Fi[k],
                              replay=dict(rp, args=dict(rp["args"], clause="mirror-at-contact-zero" if name == "hllc"
                                                        else "mirror", comp=k)),
                              samples=(SEL_SAMPLES if name == "hllc" else SAMPLES[kind]))
                    result_safety("mirror", name, F, i, H)
                    finish_hints(chk, H)
                chk.run(cfg + "/mirror", mirror)

                if name in UPWIND[kind]:
                    for side in ("L", "R"):
                        def upwind(kind=kind, name=name, nvec=nvec, rp=rp, side=side):
                            n = z3.Int("n")
                            assume(n >= 1)
                            m, info = make_model(chk, kind)
                            watch_params(info)
                            WL, WR = prim_state(kind, n, "L"), prim_state(kind, n, "R")
                            i = z3.Int("i")
                            assume(z3.And(i >= 0, i < n))
                            WLi, WRi = flat_at(WL, i), flat_at(WR, i)
                            watch_state("WL", WLi)
                            watch_state("WR", WRi)
                            dirv = normals(kind, n)[0 if nvec in (None, (1, 0)) else 1][1]
                            H = flux_hints.install(it, kind, name, mirror=False)
                            F = run_flux(chk, m, kind, name, WL, WR, dirv, H, 1)
                            it.hints = None
                            if kind == "convection":
                                hyp = info["a"] > 0 if side == "L" else info["a"] < 0
                            elif kind == "burgers":
                                hyp = z3.And(WLi[0] > 0, WRi[0] > 0) if side == "L" else z3.And(WLi[0] < 0, WRi[0] < 0)
                            else:
                                lm, lp, rm, rpl, tm, tp = roe_speeds(kind, WLi, WRi, info, nvec, H, i)
                                hyp = z3.And(lm > 0, rm > 0, tm > 0) if side == "L" else z3.And(lp < 0, rpl < 0, tp < 0)
                            assume(hyp)
                            if H is not None:
                                ent = H.store.get((1, "sL" if side == "L" else "sR"))
                                if ent and isinstance(ent.get("opaque"), A.SymArray) and name != "hllc":
                                    lemma("upwind-speed-vanishes", T.treal(ent["opaque"].at(i)) == 0)
                                if ent and isinstance(ent.get("opaque"), A.SymArray) and name == "hllc":
                                    sx = T.treal(ent["opaque"].at(i))
                                    lemma("upwind-speed-sign", sx > 0 if side == "L" else sx < 0)
                            Fi = flat_at(F, i)
                            phys = physical_flux(kind, WLi if side == "L" else WRi, info, nvec)
                            for k, cn in enumerate(comp_names(kind)):
                                prove("upwind-%s[%s]" % (side, cn), Fi[k] == phys[k],
                                      replay=dict(rp, args=dict(rp["args"], clause="upwind" + side, comp=k)),
                                      samples=SAMPLES[kind])
                            result_safety("upwind", name, F, i, H)
                            canary("canary", Fi[0] == Fi[0] + 1)
                            finish_hints(chk, H)
                        chk.run(cfg + "/upwind-" + side, upwind)

                if name == "hllc":
                    # function-level contract that carries the mirror clause across the contact-speed
                    # test: the outer wave-speed estimates select the one-sided physical flux
                    def selection(kind=kind, name=name, nvec=nvec, rp=rp):
                        n = z3.Int("n")
                        assume(n >= 1)
                        m, info = make_model(chk, kind)
                        watch_params(info)
                        WL, WR = prim_state(kind, n, "L"), prim_state(kind, n, "R")
                        i = z3.Int("i")
                        assume(z3.And(i >= 0, i < n))
                        WLi, WRi = flat_at(WL, i), flat_at(WR, i)
                        watch_state("WL", WLi)
                        watch_state("WR", WRi)
                        H = flux_hints.install(it, kind, name, mirror=False)
                        F = run_flux(chk, m, kind, name, WL, WR, None, H, 1)
                        it.hints = None
                        Fi = flat_at(F, i)
                        sL = T.treal(H.store[(1, "sL")]["opaque"].at(i))
                        sR = T.treal(H.store[(1, "sR")]["opaque"].at(i))
                        fL, fR = physical_flux(kind, WLi, info, nvec), physical_flux(kind, WRi, info, nvec)
                        rp2 = dict(rp, args=dict(rp["args"], clause="mirror-at-contact-zero"))
                        for k, cn in enumerate(comp_names(kind)):
                            prove("outer-wave-selection-L[%s]" % cn, z3.Implies(sL >= 0, Fi[k] == fL[k]), replay=rp2,
                                  samples=SEL_SAMPLES)
                            prove("outer-wave-selection-R[%s]" % cn, z3.Implies(sR <= 0, Fi[k] == fR[k]), replay=rp2,
                                  samples=SEL_SAMPLES)
                        finish_hints(chk, H)
                    chk.run(cfg + "/selection", selection)
