"""C19 — source terms are added exactly once, to their own equation.

fvm1d.rhs is executed symbolically twice on the same data, with and without sources, for
every subset of equations carrying a (user) source function; user functions are abstract
(uninterpreted result arrays; calls and arguments are ghost state).  The nozzle constructor is
executed with by-reference closures and list aliasing as in CPython, so that the composition
of the user's extra sources with the built-in area-variation sources is decided on the real
constructor code.
"""
import itertools
import z3
from pyvc import terms as T, arrays as A
from pyvc.framework import prove, canary, assume, watch, lemma, lazy_safety
from pyvc.interp import PyException, UserFunc
from contracts.flux_contract import use_flux_contract
from .common import *


class AbstractSource:
    def __init__(self, k, n):
        self.k = k
        self.n = n
        self.calls = []
        self.result = A.input_array("src%d" % k, n)
        self.func = UserFunc("source%d" % k, self)

    def __call__(self, x, q):
        self.calls.append((x, q))
        return self.result.copy()


def run_rhs(chk, kind, n, mesh, Q, source, law_const=False):
    it = chk.interp
    m, info = make_model(chk, kind, source=source, params={"Aconst": law_const})
    num = make_num(chk, "extrapol2")
    disc = make_disc1d(chk, m, mesh, num)
    fld = make_field(chk, m, mesh, [q.copy() for q in Q])
    with use_flux_contract(it, kind, info, clauses=(), requires=False), lazy_safety():
        res = it.call(it.getattr(disc, "rhs"), [fld], {})
    return res, disc, m, info


def _build_own(chk):
    it = chk.interp
    chk.assumptions += [
        "machine arithmetic treated as mathematical (real) arithmetic",
        "user source functions and the section law are abstract (uninterpreted); a user source returns one array of ncell values",
        "numflux through its contract (pointwise deterministic function of the face states); mesh contract (C20)",
    ]
    for kind in ("shallowwater", "euler1d", "nozzle"):
        neq = 2 if kind == "shallowwater" else 3
        patterns = [None] + [p for p in itertools.product([False, True], repeat=neq)]
        for pat in patterns:
            pname = "none" if pat is None else "".join("S" if b else "-" for b in pat)
            cfg = "%s/sources=%s" % (kind, pname)
            chk.configs.append(cfg)
            rp = {"fn": "source_clause", "args": {"kind": kind, "pattern": None if pat is None else list(pat)}}

            def src(kind=kind, pat=pat, neq=neq, rp=rp):
                n = z3.Int("n")
                assume(n >= 1)
                mesh = abstract_mesh1d(chk, n)
                m0, info0 = make_model(chk, kind)
                Q, P = cons_state(kind, n, "W", info0)
                i = z3.Int("i")
                assume(z3.And(i >= 0, i < n))
                # reference: the operator without user sources
                res0, disc0, m0, info0 = run_rhs(chk, kind, n, mesh, Q, None)
                srcs = None
                if pat is not None:
                    srcs = [AbstractSource(k, n) if pat[k] else None for k in range(neq)]
                try:
                    res1, disc1, m1, info1 = run_rhs(chk, kind, n, mesh, Q, None if srcs is None else [s.func if s else None for s in srcs])
                except PyException as e:
                    prove("no-exception", False, replay=rp, note="rhs raised %r" % (e.value.cls.name if hasattr(e.value, "cls") else e,))
                    return
                prove("no-exception", True, replay=rp)
                xc = mesh.attrs["xc"]
                for k in range(neq):
                    s = srcs[k] if srcs else None
                    want = T.treal(res0[k].at(i))
                    if s is not None:
                        want = want + T.treal(s.result.at(i))
                        prove("called-exactly-once[%d]" % k, len(s.calls) == 1, replay=rp)
                        if len(s.calls) == 1:
                            x, q = s.calls[0]
                            okx = isinstance(x, A.SymArray)
                            prove("receives-cell-centres[%d]" % k, okx and T.treal(x.at(i)) == T.treal(xc.at(i)), replay=rp)
                            okq = isinstance(q, list) and len(q) == neq
                            prove("receives-conservative-data[%d]" % k,
                                  okq and z3.And(*[T.treal(q[j].at(i)) == T.treal(Q[j].at(i)) for j in range(neq)]), replay=rp)
                    prove("operator-plus-source[%d]" % k, T.treal(res1[k].at(i)) == want, replay=rp)
                canary("canary", T.treal(res1[0].at(i)) == T.treal(res0[0].at(i)) + 1)
            chk.run(cfg, src)

    # ---- nozzle: built-in geometric sources -----------------------------------------------------
    def geom():
        n = z3.Int("n")
        assume(n >= 1)
        mesh = abstract_mesh1d(chk, n)
        m0, info = make_model(chk, "nozzle")
        Q, P = cons_state("nozzle", n, "W", info)
        i = z3.Int("i")
        assume(z3.And(i >= 0, i < n))
        res, disc, m, info = run_rhs(chk, "nozzle", n, mesh, Q, None)
        rp = {"fn": "nozzle_geom_clause", "args": {}}
        Af = info["A"]
        xf, xc = mesh.attrs["xf"], mesh.attrs["xc"]
        x0, x1, xm = T.treal(xf.at(i)), T.treal(xf.at(i + 1)), T.treal(xc.at(i))
        gt = (Af(x1) - Af(x0)) / ((x1 - x0) * Af(xm))           # (1/A) dA/dx, cell average
        assume(z3.And(Af(x0) > 0, Af(x1) > 0, Af(xm) > 0))
        r, u, p = flat_at(P, i)
        g = info["gamma"]
        H = g / (g - 1) * p / r + u * u / 2
        fluxes = [r * u, r * u * u, r * u * H]               # mass, momentum-convective, enthalpy flux
        flux = disc.attrs["flux"]
        vol = x1 - x0
        prove("geomterm", T.treal(m.attrs["geomterm"].at(i)) == gt, replay=rp)
        for k, cn in enumerate(comp_names("nozzle")):
            bal = -(T.treal(flux[k].at(i + 1)) - T.treal(flux[k].at(i))) / vol
            prove("area-source[%s]" % cn, T.treal(res[k].at(i)) == bal - gt * fluxes[k], replay=rp)
            prove("constant-section-no-source[%s]" % cn,
                  z3.Implies(Af(x1) == Af(x0), T.treal(res[k].at(i)) == bal), replay=rp)
    chk.run("nozzle/geometric-sources", geom)


def build(chk):
    _build_own(chk)
    from . import C20
    chk.include(C20, r".", "uses:C20")          # the mesh contract (the sources receive the cell centres of the mesh)
