"""C07 — time bookkeeping: steps advance by dt, snapshots land on requested times.

(1) every integrator's step advances the field time by dt (scalar) / min(dt) (array):
    explicit family from the executed step (abstract RHS), implicit family C06;
(2) timemodel._solve by the loop-invariant rule on the real loop bodies (props/driver.py),
    against the contracts of step and calc_timestep: prologue establishes the invariant,
    a generic iteration preserves it, snapshots are stamped with the requested time, produced by
    a forward step no longer than one CFL step from a copy of the trajectory state, the iteration
    counter counts full steps, the stop criteria are evaluated after every step, the caller's
    field is never touched.
"""
import ast
import z3
from pyvc import terms as T, arrays as A, npmodel
from pyvc.framework import prove, canary, assume, watch, lemma
from pyvc.interp import PyObj, UserFunc, PyException
from .common import *
from .intcommon import integrator_classes, make_setup, AbstractRHS
from .driver import *


def build(chk):
    it = chk.interp
    chk.assumptions += [
        "machine arithmetic treated as mathematical (real) arithmetic ('to within round-off')",
        "step and calc_timestep through their contracts inside _solve (step: time += min(dt), requires dt>=0, dt>0 for "
        "the implicit family; calc_timestep: positive per-cell steps, C18); monitors/flush off (C08 covers monitors)",
        "save-time lists are strictly increasing (the statement's quantifier)",
    ]
    # ---- (1) single step: time advance with scalar and array dt ------------------------------------
    for nm, cls, implicit, concrete in integrator_classes(chk):
        if not concrete or implicit:
            continue
        for kind in ("scalar", "array"):
            rp = {"fn": "step_time_clause", "args": {"integrator": nm, "kind": kind}}

            def st(cls=cls, kind=kind, rp=rp):
                S = make_setup(chk, cls)
                if kind == "scalar":
                    dt = z3.Real("dt")
                    adv = dt
                else:
                    dt = A.input_array("dt", S["n"])
                    adv = None
                if adv is None:
                    adv = npmodel.array_min(dt)         # min(dt): the same symbol is returned for the same array later
                it.call(it.getattr(S["solver"], "step"), [S["field"], dt], {})
                if kind == "array":
                    # lemma instances 'a minimum is a lower bound', at the arg-min indices of all minima formed
                    for (at, nn, mm, i0) in list(T.cur().ghost.get("mins", [])):
                        npmodel.instantiate_mins(i0)
                prove("time-advances-by-dt", T.treal(S["field"].attrs["time"]) == S["t0"] + adv, replay=rp)
            chk.run("step-time/%s/%s" % (nm, kind), st)

    frag = solve_fragments(chk)
    it.while_handler = skip_loop_handler(frag)
    chk.notes.append("_solve saving logic: %s" % ("inner loop over save times" if frag["inner_index"] is not None else "single if per step"))

    # ---- (2a) prologue ------------------------------------------------------------------------------
    for sname, kinds in stop_variants():
        rp = {"fn": "driver_clause", "args": {"clause": "start", "stop": sname}}

        def pro(kinds=kinds, sname=sname, rp=rp):
            D = make_driver(chk)
            t0 = z3.Real("t_start")
            f = new_field(chk, D, "F", t0)
            fdata_ids = [(id(a), a.version) for a in f.attrs["data"]]
            nsave = z3.Int("nsave")
            assume(nsave >= (1 if kinds is None else 0))
            tsave = monotone_array("tsave", nsave)
            stop = make_stop(kinds)
            env = frag_env(frag, {"self": D["solver"], "f": f, "condition": z3.Real("cfl"), "tsave": tsave, "stop": stop,
                                  "flush": None, "monitors": {}, "directives": {}})
            try:
                exec_fragment(chk, frag, frag["pre"], env)
            except PyException as e:
                prove("no-exception", False, replay=rp)
                return
            slv = D["solver"]
            Qn = slv.attrs["Qn"]
            i = z3.Int("i")
            assume(z3.And(i >= 0, i < D["n"]))
            prove("Qn-is-a-copy/distinct-object", Qn is not f and all(a is not b for a, b in zip(Qn.attrs["data"], f.attrs["data"])),
                  replay=rp)
            prove("Qn-is-a-copy/equal-data", z3.And(*[T.treal(a.at(i)) == T.treal(b.at(i)) for a, b in
                                                      zip(Qn.attrs["data"], f.attrs["data"])]), replay=rp)
            prove("Qn-is-a-copy/time", T.treal(Qn.attrs["time"]) == t0, replay=rp)
            prove("caller-field-untouched", [(id(a), a.version) for a in f.attrs["data"]] == fdata_ids
                  and f.attrs["time"] is t0, replay=rp)
            isave = env.lookup("isave")
            prove("counters", T.band(T.eq(slv.attrs["_nit"], 0), T.eq(env.lookup("nsave"), nsave)), replay=rp)
            prove("time-register", T.treal(slv.attrs["_time"]) == t0, replay=rp)
            ns = T.tz(nsave)
            strict = frag["inner_index"] is not None
            pend = T.treal(tsave.at(isave))
            prove("invariant/established", z3.And(T.tz(isave) >= 0, T.tz(isave) <= ns,
                                                  z3.Implies(T.tz(isave) < ns, pend > t0 if strict else pend >= t0)), replay=rp)
            # snapshots already returned by the prologue: the initial state for a save time equal to the start time
            for sn in results_of(env):
                prove("start-time-snapshot/is-a-copy-of-the-initial-state",
                      sn is not Qn and sn is not f and T.treal(sn.attrs["time"]) == t0 and
                      z3.And(*[T.treal(a.at(i)) == T.treal(b.at(i)) for a, b in zip(sn.attrs["data"], f.attrs["data"])]),
                      replay=rp)
                prove("start-time-snapshot/tagged-with-the-iteration", T.eq(sn.attrs["it"], slv.attrs["_itstart"]), replay=rp)
            results = env.lookup("results")
            nres = len(results.attrs["solutions"])
            checkend = env.lookup("checkend")
            # a save time equal to the start time must return the initial state: either it is already in the
            # results, or the main loop is entered (and saves it with a zero-length step)
            watch("t_start", t0)
            prove("start-time-save-not-dropped",
                  z3.Implies(z3.And(T.tz(isave) < ns, T.treal(tsave.at(isave)) == t0),
                             T.tz(T.bor(nres > 0, T.bnot(checkend)))),
                  replay=dict(rp, args=dict(rp["args"], clause="start-only")))
        chk.run("solve/prologue/stop=%s" % sname, pro)

    # ---- (2b) a generic iteration of the main loop --------------------------------------------------------
    for sname, kinds in stop_variants():
        for dtlocal in (False, True):
            for prior in (False, True):
                for positive in (False, True):
                    cfg = "solve/iteration/stop=%s/dtlocal=%s/prior-results=%s/%s" % (
                        sname, dtlocal, prior, "implicit-family" if positive else "explicit-family")
                    chk.configs.append(cfg)
                    rp = {"fn": "driver_clause", "args": {"clause": "iteration", "stop": sname, "dtlocal": dtlocal,
                                                         "implicit": positive}}

                    def itr(kinds=kinds, dtlocal=dtlocal, prior=prior, positive=positive, rp=rp):
                        iteration(chk, frag, kinds, dtlocal, prior, positive, rp)
                    chk.run(cfg, itr)


def results_of(env):
    return list(env.lookup("results").attrs["solutions"])


def iteration(chk, frag, kinds, dtlocal, prior, positive, rp):
    it = chk.interp
    D = make_driver(chk, positive=positive)
    slv = D["solver"]
    t, tstart = z3.Real("t"), z3.Real("t_start")
    assume(tstart <= t)
    Qn = new_field(chk, D, "Qn", t)
    Qn.attrs["it"] = z3.Int("qn_it")
    nit, it0 = z3.Int("nit"), z3.Int("itstart")
    assume(z3.And(nit >= 0, it0 >= 0))
    slv.attrs.update({"Qn": Qn, "_nit": nit, "_itstart": it0, "_time": t, "condition": z3.Real("cfl")})
    nsave, isave = z3.Int("nsave"), z3.Int("isave")
    assume(z3.And(isave >= 0, isave <= nsave))
    tsave = monotone_array("tsave", nsave)
    # invariant of the main loop (strict once save times equal to the start time are served by the prologue)
    strict = frag["inner_index"] is not None
    assume(z3.Implies(isave < nsave, T.treal(tsave.at(isave)) > t if strict else T.treal(tsave.at(isave)) >= t))
    for lbl, v in (("t", t), ("isave", isave), ("nsave", nsave)):
        watch(lbl, v)
    watch("tsave_i", tsave.at(isave))
    watch("tsave_i1", tsave.at(isave + 1))
    mindt_sym = None
    stopcrit = {}
    if kinds is None:
        assume(nsave >= 1)
        stopcrit["tottime"] = tsave.at(nsave - 1)
    else:
        if "maxit" in kinds:
            stopcrit["maxit"] = z3.Int("maxit")
        if "tottime" in kinds:
            stopcrit["tottime"] = z3.Real("tottime")
    results = it.call(get(chk, "flowdyn.field", "fieldlist"), [], {})
    if prior:
        results.attrs["solutions"].append(new_field(chk, D, "prev", z3.Real("t_prev")))
    nprior = len(results.attrs["solutions"])
    old_data = list(Qn.attrs["data"])
    env = frag_env(frag, {"self": slv, "condition": slv.attrs["condition"], "tsave": tsave, "stop": None, "flush": None,
                          "monitors": {}, "directives": {}, "verbose": False, "dtlocal": dtlocal, "stopcrit": stopcrit,
                          "results": results, "isave": isave, "nsave": nsave, "checkend": False, "start": 0})
    inner = frag["inner_index"]
    if inner is not None:
        it.while_handler = inner_loop_handler(chk, frag, D, rp)
    try:
        exec_fragment(chk, frag, frag["main"].body, env)
    except PyException as e:
        prove("no-exception", False, replay=rp)
        return
    finally:
        it.while_handler = skip_loop_handler(frag)
    calls = D["step"].calls
    mins = T.cur().ghost.get("mins", [])
    prove("timestep-evaluated-once-on-the-trajectory-state",
          len(D["ts_calls"]) == 1 and D["ts_calls"][0][0] is Qn, replay=rp)
    ok = len(calls) >= 1 and len(mins) >= 1
    prove("a-full-step-is-taken", ok, replay=rp)
    if not ok:
        return
    mindt = mins[0][2]
    watch("mindt", mindt)
    full = calls[-1]
    newQ = slv.attrs["Qn"]
    prove("full-step/on-a-copy-of-the-trajectory-state", full["field"] is newQ and newQ is not Qn
          and T.same(full["time_before"], t), replay=rp)
    if dtlocal:
        prove("full-step/local-time-step-array", full["dt"] is D["dtarr"], replay=rp)
    else:
        prove("full-step/global-minimum", T.is_sym(full["dt"]) and full["dt"].eq(mindt), replay=rp)
    prove("old-trajectory-state-untouched", Qn.attrs["time"] is t and all(a is b for a, b in zip(Qn.attrs["data"], old_data)),
          replay=rp)
    prove("iteration-counter", T.eq(slv.attrs["_nit"], nit + 1), replay=rp)
    tnew = T.treal(newQ.attrs["time"])
    prove("time-register", T.treal(slv.attrs["_time"]) == tnew, replay=rp)
    prove("time-advance", tnew == t + mindt, replay=rp)
    # side steps (snapshots)
    isave2 = env.lookup("isave")
    sols = results.attrs["solutions"][nprior:]
    side = calls[:-1]
    if inner is None:
        snaps = sols if not (len(sols) and sols[-1] is newQ) else sols[:-1]
        prove("snapshots/count", T.eq(isave2, isave + len(snaps)), replay=rp)
        for k, sn in enumerate(snaps):
            tk = T.treal(tsave.at(isave + k))
            prove("snapshot[%d]/stamped-with-the-requested-time" % k, T.treal(sn.attrs["time"]) == tk, replay=rp)
            prove("snapshot[%d]/tagged-with-the-iteration" % k, T.eq(sn.attrs["it"], it0 + nit), replay=rp)
            prove("snapshot[%d]/is-not-the-trajectory-state" % k, sn is not newQ and sn is not Qn, replay=rp)
        for k, c in enumerate(side):
            dts = T.treal(c["dt"])
            pcs = z3.And(*c["pc"]) if c["pc"] else z3.BoolVal(True)
            req = dts > 0 if positive else dts >= 0
            prove("side-step[%d]/requires-of-step" % k, z3.Implies(pcs, req),
                  replay=dict(rp, args=dict(rp["args"], clause="zero-step" if positive else "iteration")))
            prove("side-step[%d]/forward-and-no-longer-than-one-step" % k, z3.Implies(pcs, z3.And(dts >= 0, dts <= mindt)), replay=rp)
            prove("side-step[%d]/from-a-copy-of-the-trajectory-state" % k, T.same(c["time_before"], t) and c["field"] is not Qn, replay=rp)
    # invariant preserved: the next pending save time is not behind the new trajectory time, and no reached
    # save time was skipped
    ns = T.tz(nsave)
    prove("invariant/preserved", z3.Implies(T.tz(isave2) < ns, T.treal(tsave.at(isave2)) > tnew if strict
                                            else T.treal(tsave.at(isave2)) >= tnew),
          replay=dict(rp, args=dict(rp["args"], clause="dense")))
    # stop criteria evaluated on the new state
    ce = env.lookup("checkend")
    want = z3.BoolVal(False)
    if "tottime" in stopcrit:
        want = z3.Or(want, tnew >= T.treal(stopcrit["tottime"]))
    if "maxit" in stopcrit:
        want = z3.Or(want, nit + 1 >= stopcrit["maxit"])
    prove("stop-criteria-evaluated-after-the-step", T.tz(ce) == want, replay=rp)
    if kinds is None:
        # default stop (the last save time): when the run stops every requested time has been served
        monotone_pair(tsave, isave2, nsave - 1)
        prove("default-stop/all-save-times-served", z3.Implies(T.tz(ce), T.tz(isave2) == ns), replay=rp)
    prove("loop-continues-until-a-criterion-holds", ast.unparse(frag["main"].test).replace(" ", "") == "notcheckend", replay=rp)
    # a run that ends without any snapshot returns the final state, tagged with its iteration
    if len(sols) and sols[-1] is newQ:
        prove("final-state-returned-only-when-nothing-was-saved", nprior == 0 and len(sols) == 1, replay=rp)
        prove("final-state/tagged-with-the-iteration", T.eq(newQ.attrs["it"], it0 + nit + 1),
              replay=dict(rp, args=dict(rp["args"], clause="final-it")))
    canary("canary", tnew == t)


def inner_loop_handler(chk, frag, D, rp):
    """the saving logic is a loop over the save times reached by this step: generic iteration of
    that loop + summary.  Invariant: isave<=nsave, pending save time not behind the trajectory time."""
    def handler(interp, st, env):
        main = frag["main"]
        if st is not main.body[frag["inner_index"]]:
            raise T.EngineError("unexpected symbolic while at line %d" % st.lineno)
        ses = T.cur()
        slv = env.lookup("self")
        Qn = slv.attrs["Qn"]
        t = T.treal(Qn.attrs["time"])
        tsave, nsave = env.lookup("tsave"), env.lookup("nsave")
        isave0 = env.lookup("isave")
        mins = ses.ghost.get("mins", [])
        if not mins:
            raise T.EngineError("inner loop reached before the minimum time step was formed")
        mindt = mins[0][2]
        # ---- generic iteration from isave = j
        j = ses.fresh("jsave", "Int")
        ses.pc.append(z3.And(j >= T.tz(isave0), j < T.tz(nsave), T.treal(tsave.at(j)) > t))
        env.vars["isave"] = j
        ncalls = len(D["step"].calls)
        results = env.lookup("results")
        nres = len(results.attrs["solutions"])
        cond = interp.truth(interp.eval(st.test, env))
        prove("save-loop/test-is-reached-by-this-step", T.tz(cond) == z3.And(j < T.tz(nsave), t + mindt >= T.treal(tsave.at(j))),
              replay=rp)
        ses.pc.append(T.tz(cond))
        positive = D["step"].positive
        # explore the body paths locally (a branch on tsave > time)
        from pyvc.interp import Explorer
        saved_env = dict(env.vars)
        work = [[]]
        old = (ses.decisions, ses.dpos, ses.newforks)
        pcl = len(ses.pc)
        paths = 0
        while work:
            dec = work.pop()
            env.vars.clear()
            env.vars.update(saved_env)
            del ses.pc[pcl:]
            del D["step"].calls[ncalls:]
            del results.attrs["solutions"][nres:]
            ses.decisions, ses.dpos, ses.newforks = list(dec), 0, []
            interp.exec_block(st.body, env)
            work.extend(ses.newforks)
            paths += 1
            tag = "save-loop/path%d" % paths
            new = results.attrs["solutions"][nres:]
            prove(tag + "/one-snapshot-per-iteration", len(new) == 1 and T.same(T.simp(T.sub(env.lookup("isave"), j)), 1), replay=rp)
            if len(new) == 1:
                sn = new[0]
                prove(tag + "/stamped-with-the-requested-time", T.treal(sn.attrs["time"]) == T.treal(tsave.at(j)), replay=rp)
                prove(tag + "/tagged-with-the-iteration", T.eq(sn.attrs["it"], T.add(slv.attrs["_itstart"], slv.attrs["_nit"])), replay=rp)
                prove(tag + "/is-a-copy", sn is not Qn, replay=rp)
                i = z3.Int("i")
            for c in D["step"].calls[ncalls:]:
                dts = T.treal(c["dt"])
                prove(tag + "/side-step/requires-of-step", dts > 0 if positive else dts >= 0,
                      replay=dict(rp, args=dict(rp["args"], clause="zero-step")))
                prove(tag + "/side-step/forward-and-no-longer-than-one-step", z3.And(dts >= 0, dts <= mindt), replay=rp)
                prove(tag + "/side-step/from-a-copy-of-the-trajectory-state", T.same(c["time_before"], t) and c["field"] is not Qn,
                      replay=rp)
            if not D["step"].calls[ncalls:]:
                # no step: the snapshot must be the trajectory state itself (save time == current time)
                prove(tag + "/zero-distance-returns-the-state", T.treal(tsave.at(j)) == t, replay=rp)
            prove(tag + "/trajectory-state-untouched", slv.attrs["Qn"] is Qn and T.same(T.treal(Qn.attrs["time"]), t), replay=rp)
        ses.decisions, ses.dpos, ses.newforks = old
        del ses.pc[pcl - 2:]
        del D["step"].calls[ncalls:]
        del results.attrs["solutions"][nres:]
        env.vars.clear()
        env.vars.update(saved_env)
        # ---- summary: isave' = first index >= isave0 not reached by this step
        k1 = ses.fresh("isave1", "Int")
        ses.add_fact(z3.And(k1 >= T.tz(isave0), k1 <= T.tz(nsave)))
        ses.add_fact(z3.Implies(k1 < T.tz(nsave), T.treal(tsave.at(k1)) > t + mindt))
        env.vars["isave"] = k1
        ses.ghost["save_loop"] = {"from": isave0, "to": k1}
    return handler
