"""C13 — the 1-D solver commutes with reflection (and with a change of units).

Reflection, relational on the real code: fvm1d.rhs is executed symbolically on a problem and on
its mirror image (mesh xf' = -xf reversed, cell order reversed, velocities / convection speed
negated, left and right boundary conditions exchanged) on an abstract strictly increasing mesh,
symbolic ncell (seam cells + generic cell; ncell = 1..4 concrete), every model, reconstruction
and boundary pair.  numflux enters through its contract with the MIRROR clause proved in C02; the
boundary-condition functions and everything else are the real code of both runs.  Obligation:
res'[k][i] = s_k res[k][n-1-i]  (s = +1 even quantities, -1 odd ones) and dt'[i] = dt[n-1-i].
"""
import z3
from pyvc import terms as T, arrays as A
from pyvc.framework import prove, canary, assume, watch, lemma, lazy_safety
from pyvc.interp import PyObj
from contracts.flux_contract import use_flux_contract
from .common import *
from .C17 import cons_from_prim
from .C01 import bc_dict

ODD = {"convection": [1], "burgers": [-1], "shallowwater": [1, -1], "euler1d": [1, -1, 1], "nozzle": [1, -1, 1]}


def reversed_array(arr, n, sign=1):
    at = arr._snapshot_at()
    if sign == 1:
        return A.SymArray(n, lambda i: at(T.sub(T.sub(n, 1), i)), name="rev")
    return A.SymArray(n, lambda i: T.neg(at(T.sub(T.sub(n, 1), i))), name="-rev")


def mirror_mesh(chk, mesh, n):
    xf = mesh.attrs["xf"]
    xfat = xf.at
    xf2 = A.SymArray(T.add(n, 1), lambda f: T.neg(xfat(T.sub(n, f))), name="xf'")
    x2 = xf2.at
    xc2 = A.SymArray(n, lambda i: T.div(T.add(x2(i), x2(T.add(i, 1))), 2), name="xc'")
    o = PyObj(mesh.cls)
    o.attrs.update({"ncell": n, "xf": xf2, "xc": xc2, "length": mesh.attrs["length"], "_type": "1D"})
    return o


def mirror_bc(kind, d):
    d2 = dict(d)
    if "prim" in d:
        p = list(d["prim"])
        if kind == "burgers":
            p[0] = -p[0]
        elif kind != "convection":
            p[1] = -p[1]
        d2["prim"] = p
    return d2


def bc_pairs(kind):
    out = [("per", "per"), ("dirichlet", "dirichlet")]
    if kind == "shallowwater":
        out += [("sym", "sym"), ("sym", "inf")]
    if kind in ("euler1d", "nozzle"):
        out += [("sym", "sym"), ("insub", "outsub"), ("insub_cbc", "outsub_nrcbc"), ("insup", "outsup"),
                ("outsub_qtot", "insub"), ("outsub_rh", "sym")]
    return out


class BCMirror:
    """contract of model.namedBC at the call sites of the two runs: the result is an opaque state; the clause
    'bc(-dir, M W, prm) = M bc(dir, W, prm)' (leaf obligations bc-mirror/*) is instantiated between the logged calls"""

    def __init__(self, kind):
        self.kind = kind
        self.calls = []

    def apply(self, interp, f, bound):
        nv = len(bound["data"])
        out = [T.cur().fresh("bcout") for _ in range(nv)]
        self.calls.append({"name": bound["name"], "dir": bound["dir"], "data": [T.treal(x) for x in bound["data"]],
                           "param": bound["param"], "out": out})
        T.cur().trace.append(("contract", "bc_" + str(bound["name"])))
        return out

    def instance(self, c1, c2):
        kind = self.kind
        PPk = {"convection": [1], "burgers": [-1], "shallowwater": [1, -1]}.get(kind, [1, -1, 1])
        rel = [T.tz(c2["dir"] == -c1["dir"]), T.tz(c1["name"] == c2["name"])]
        rel += [y == s * x for x, y, s in zip(c1["data"], c2["data"], PPk)]
        for k, v in c1["param"].items():
            if k in ("type",):
                continue
            w = c2["param"].get(k)
            if k == "prim":
                rel += [T.treal(b) == s * T.treal(a) for a, b, s in zip(v, w, PPk)]
            else:
                rel.append(T.treal(w) == T.treal(v))
        rel = z3.And(*rel)
        T.cur().add_fact(z3.Implies(rel, z3.And(*[y == s * x for x, y, s in zip(c1["out"], c2["out"], PPk)])))
        return rel


class LimiterContract:
    """contract of a slope limiter at the call sites in muscl.interp_face (clauses proved in C12 for every limiter):
    pointwise function phi(a,b), odd: phi(-a,-b) = -phi(a,b), symmetric: phi(a,b) = phi(b,a)"""

    def __init__(self, name):
        self.phi = z3.Function("phi_" + name, z3.RealSort(), z3.RealSort(), z3.RealSort())

    def apply(self, interp, f, bound):
        phi = self.phi

        def one(a, b):
            a, b = T.treal(a), T.treal(b)
            v = phi(a, b)
            ses = T.cur()
            ses.add_fact(v == -phi(-a, -b), trigger=v)
            ses.add_fact(v == phi(b, a), trigger=v)
            return v
        return A.elementwise(one, [bound["a"], bound["b"]], name="phi")


QN_BC = "flowdyn.modelphy.base::model.namedBC"


def bc_names(chk, kind):
    names = []

    def enum():
        m, info = make_model(chk, kind)
        names.extend(sorted(m.attrs["_bcdict"].attrs["dict"].keys()))
    chk.run("bc-mirror/%s/enumerate" % kind, enum, always=True)
    return names


def build(chk):
    it = chk.interp
    # ---- leaf: every registered boundary condition commutes with the reflection ----------------------------------
    from .C16 import PARAMS
    for kind in ("convection", "burgers", "shallowwater", "euler1d"):
        for name in bc_names(chk, kind):
            if name not in PARAMS:
                continue
            for d in (-1, 1):
                rp = {"fn": "bc_mirror_clause", "args": {"kind": kind, "bc": name, "dir": d}}

                def leaf(kind=kind, name=name, d=d, rp=rp):
                    m, info = make_model(chk, kind)
                    nv = {"convection": 1, "burgers": 1, "shallowwater": 2}.get(kind, 3)
                    PPk = {"convection": [1], "burgers": [-1], "shallowwater": [1, -1]}.get(kind, [1, -1, 1])
                    W = [z3.Real("W%d" % k) for k in range(nv)]
                    for k, w in enumerate(W):
                        watch("W%d" % k, w)
                    if kind == "shallowwater":
                        assume(W[0] > 0)
                    if kind == "euler1d":
                        assume(z3.And(W[0] > 0, W[2] > 0))
                    prm = {k: z3.Real("prm_" + k) for k in PARAMS[name]}
                    for k, v in prm.items():
                        assume(v > 0)
                        watch("prm_" + k, v)
                    if kind == "euler1d":
                        from .C16 import regime_1d
                        for f_ in regime_1d(name, d, W, prm, info["gamma"]):
                            assume(f_)
                    p1 = dict(prm, type=name)
                    p2 = dict(prm, type=name)
                    if name == "dirichlet":
                        pr = [z3.Real("prim%d" % k) for k in range(nv)]
                        p1["prim"], p2["prim"] = pr, [s_ * x for s_, x in zip(PPk, pr)]
                    from contracts import bc_hints
                    H = bc_hints.install(it, name + "/mirror")
                    with lazy_safety():
                        if H is not None:
                            H.phase = 1
                        o1 = it.call(it.getattr(m, "namedBC"), [name, d, list(W), p1], {})
                        if H is not None:
                            H.phase = 2
                        o2 = it.call(it.getattr(m, "namedBC"), [name, -d, [s_ * w for s_, w in zip(PPk, W)], p2], {})
                    it.hints = None
                    for k in range(nv):
                        prove("commutes-with-reflection[%d]" % k, T.treal(o2[k]) == PPk[k] * T.treal(o1[k]), replay=rp)
                chk.run("bc-mirror/%s/%s/dir=%+d" % (kind, name, d), leaf)
    chk.assumptions += [
        "machine arithmetic treated as mathematical (real) arithmetic ('to round-off')",
        "numflux through its contract with the mirror clause (proved for every registered flux in C02); mesh contract (C20)",
        "integrators and driver: linear in the residuals with a reflection-invariant time step (normal forms C05-C07)",
        "UNITS: decided by dimensional typing of the symbolic residual and time step (pyvc/dimcheck.py): a derivation is a proof "
        "of homogeneity over the reals for ALL inputs and scale factors; 'bit for bit for powers of two' follows from it under "
        "the stated floating-point lemma (correctly rounded + - * / sqrt commute exactly with power-of-two scalings, x**y and "
        "log only see dimensionless arguments, no overflow/underflow) and is exercised by the replay on the real code",
    ]
    # ---- the per-cell time step is reflection invariant (independent of reconstruction and boundaries) ------------------
    for kind in ("convection", "burgers", "shallowwater", "euler1d"):
        rp = {"fn": "mirror_clause", "args": {"kind": kind, "num": "extrapol1", "limiter": None, "bcL": "per", "bcR": "per"}}

        def tsr(kind=kind, rp=rp):
            n = z3.Int("n")
            assume(n >= 1)
            mesh1 = abstract_mesh1d(chk, n)
            mesh2 = mirror_mesh(chk, mesh1, n)
            m1, info = make_model(chk, kind)
            if kind == "convection":
                m2, _ = make_model(chk, kind, params={"a": -info["a"]})
                assume(info["a"] != 0)
            else:
                m2 = m1
            num = make_num(chk, "extrapol1")
            d1 = make_disc1d(chk, m1, mesh1, num)
            d2 = make_disc1d(chk, m2, mesh2, num)
            P1 = prim_state(kind, n, "W")
            Q1 = cons_from_prim(kind, P1, info)
            Q2 = [reversed_array(q, n, ODD[kind][k]) for k, q in enumerate(Q1)]
            f1 = make_field(chk, m1, mesh1, Q1)
            f2 = make_field(chk, m2, mesh2, Q2)
            cfl = z3.Real("cfl")
            assume(cfl > 0)
            with lazy_safety():
                t1 = it.call(it.getattr(d1, "calc_timestep"), [f1, cfl], {})
                t2 = it.call(it.getattr(d2, "calc_timestep"), [f2, cfl], {})
                if kind == "euler1d":
                    v1 = it.call(it.getattr(m1, "velocitymag"), [f1.attrs["data"]], {})
                    v2 = it.call(it.getattr(m2, "velocitymag"), [f2.attrs["data"]], {})
            i = z3.Int("i")
            assume(z3.And(i >= 0, i < n))
            j = T.sub(T.sub(n, 1), i)
            if kind == "euler1d":
                lemma("velocity-magnitude", T.treal(v2.at(i)) == T.treal(v1.at(j)))
            prove("timestep-reflection-invariant", T.treal(t2.at(i)) == T.treal(t1.at(j)), replay=rp)
        chk.run("timestep/%s" % kind, tsr)

    for kind in ("convection", "burgers", "shallowwater", "euler1d"):
        for label, cls, lim in num_configs(chk):
            for bl, br in bc_pairs(kind):
                if chk.tier == "quick" and cls not in ("extrapol1", "extrapol2") and (bl, br) not in (("per", "per"), ("insub", "outsub")):
                    continue
                if chk.tier == "quick" and not (cls in ("extrapol1", "extrapol2", "extrapolk", "muscl") and lim in (None, "minmod")):
                    continue      # quick: one representative per reconstruction family (limiters enter through their C12 contract)
                if kind in ("euler1d", "shallowwater") and cls in ("extrapolk", "muscl"):
                    continue      # systems with symbolic kappa / limited slopes: not decided (beyond the solver budget; the
                                  # scalar models carry these reconstructions, the systems carry extrapol1/2 and the fixed-kappa schemes)
                if chk.tier != "quick" and kind in ("euler1d", "shallowwater") and cls not in ("extrapol1", "extrapol2", "extrapol3"):
                    continue      # thorough: systems with extrapol1/2/3 and every boundary pair; scalar models with everything
                for ncase in ("n>=5", 1, 2, 3, 4):
                    if ncase != "n>=5" and not (cls == "extrapol2" and chk.tier == "quick" or chk.tier != "quick"):
                        continue
                    cfg = "fvm1d/%s/%s/%s-%s/n=%s" % (kind, label, bl, br, ncase)
                    chk.configs.append(cfg)
                    rp = {"fn": "mirror_clause", "args": {"kind": kind, "num": cls, "limiter": lim, "bcL": bl, "bcR": br}}

                    def mir(kind=kind, cls=cls, lim=lim, bl=bl, br=br, ncase=ncase, rp=rp):
                        if ncase == "n>=5":
                            n = z3.Int("n")
                            assume(n >= 5)
                        else:
                            n = ncase
                        mesh1 = abstract_mesh1d(chk, n)
                        mesh2 = mirror_mesh(chk, mesh1, n)
                        m1, info = make_model(chk, kind)
                        if kind == "convection":
                            m2, _ = make_model(chk, kind, params={"a": -info["a"]})
                            assume(info["a"] != 0)
                        else:
                            m2 = m1
                        bL, bR = bc_dict(kind, bl, "L"), bc_dict(kind, br, "R")
                        num = make_num(chk, cls, limiter=lim)
                        d1 = make_disc1d(chk, m1, mesh1, num, bcL=bL, bcR=bR)
                        d2 = make_disc1d(chk, m2, mesh2, num, bcL=mirror_bc(kind, bR), bcR=mirror_bc(kind, bL))
                        P1 = prim_state(kind, n, "W")
                        if kind == "convection":
                            P2 = [reversed_array(P1[0], n)]
                        elif kind == "burgers":
                            P2 = [reversed_array(P1[0], n, -1)]
                        else:
                            P2 = [reversed_array(p, n, -1 if k == 1 else 1) for k, p in enumerate(P1)]
                        Q1 = cons_from_prim(kind, P1, info)
                        # the mirrored problem in conservative variables: cell order reversed, odd quantities negated
                        Q2 = [reversed_array(q, n, ODD[kind][k]) for k, q in enumerate(Q1)]
                        f1 = make_field(chk, m1, mesh1, Q1)
                        f2 = make_field(chk, m2, mesh2, Q2)
                        bcm = BCMirror(kind)
                        it.contracts[QN_BC] = bcm
                        it.active_contracts.add(QN_BC)
                        qlim = None
                        if lim is not None:
                            qlim = "flowdyn.xnum::" + lim
                            it.contracts[qlim] = LimiterContract(lim)
                            it.active_contracts.add(qlim)
                        try:
                            with use_flux_contract(it, kind, info, clauses=(), requires=False, opaque=True) as fc, lazy_safety():
                                r1 = [r.copy() for r in it.call(it.getattr(d1, "rhs"), [f1], {})]
                                rec1 = fc.last
                                r2 = it.call(it.getattr(d2, "rhs"), [f2], {})
                                rec2 = fc.last
                        finally:
                            it.active_contracts.discard(QN_BC)
                            if qlim:
                                it.active_contracts.discard(qlim)
                        bcc = bcm.calls      # run 1: [left, right], run 2: [left, right]
                        if T.is_sym(n):
                            ii = z3.Int("i")
                            assume(z3.And(ii >= 2, ii <= n - 3))
                            cells = [("i=0", 0), ("i=1", 1), ("i=n-2", n - 2), ("i=n-1", n - 1), ("interior", ii)]
                        else:
                            cells = [("i=%d" % k, k) for k in range(n)]
                        PP = {"convection": [1], "burgers": [-1], "shallowwater": [1, -1], "euler1d": [1, -1, 1]}[kind]   # prim parity
                        FP = parity(kind)                                                                        # flux parity
                        has_grad = "grad" in d1.attrs and cls != "extrapol1"
                        for nm, i in cells:
                            j = T.sub(T.sub(n, 1), i)
                            # staged ghost lemmas: primitive data, gradients, face states, fluxes of the two runs around cell i
                            for dc in (-2, -1, 0, 1, 2):
                                c = T.add(i, dc)
                                inr = T.band(T.ge(c, 0), T.lt(c, n))
                                if inr is False:
                                    continue
                                for k in range(len(PP)):
                                    lemma("primitive-data/%s/c=i%+d[%d]" % (nm, dc, k),
                                          T.tz(T.implies(inr, T.treal(d2.attrs["pdata"][k].at(c)) ==
                                                         PP[k] * T.treal(d1.attrs["pdata"][k].at(T.sub(T.sub(n, 1), c))))))
                            if has_grad:
                                for df in (-1, 0, 1, 2):
                                    f = T.add(i, df)
                                    inr = T.band(T.ge(f, 0), T.le(f, n))
                                    if inr is False:
                                        continue
                                    for k in range(len(PP)):
                                        lemma("gradient/%s/f=i%+d[%d]" % (nm, df, k),
                                              T.tz(T.implies(inr, T.treal(d2.attrs["grad"][k].at(f)) ==
                                                             -PP[k] * T.treal(d1.attrs["grad"][k].at(T.sub(n, f))))))
                            for df in (0, 1):
                                f = T.add(i, df)
                                g = T.sub(n, f)
                                # the side extrapolated from the interior first, then the other side (a boundary state at an end face)
                                sides = [("pL", "pR"), ("pR", "pL")]
                                fs = T.simp(f) if T.is_sym(f) else f
                                if T.same(fs, 0):
                                    sides = [("pR", "pL"), ("pL", "pR")]
                                for q_, (s2, s1) in enumerate(sides):
                                    if q_ == 1 and len(bcc) == 4:
                                        # instance of the boundary-condition mirror clause between the two runs
                                        if T.same(fs, 0):
                                            lemma("bc-arguments-are-mirror-images/%s/left" % nm, bcm.instance(bcc[1], bcc[2]))
                                        if T.same(T.simp(T.sub(fs, n)) if T.is_sym(T.sub(fs, n)) else T.sub(fs, n), 0):
                                            lemma("bc-arguments-are-mirror-images/%s/right" % nm, bcm.instance(bcc[0], bcc[3]))
                                    for k in range(len(PP)):
                                        lemma("face-states/%s/f=i%+d/%s[%d]" % (nm, df, s2, k),
                                              T.treal(d2.attrs[s2][k].at(f)) == PP[k] * T.treal(d1.attrs[s1][k].at(g)))
                                lemma("flux-arguments-are-mirror-images/%s/f=i%+d" % (nm, df), fc.instance_mirror(rec1, rec2, f, g))
                            for k, cn in enumerate(comp_names(kind)):
                                prove("reflection-equivariant/%s[%s]" % (nm, cn),
                                      T.treal(r2[k].at(i)) == ODD[kind][k] * T.treal(r1[k].at(j)), replay=rp)
                        canary("canary", T.treal(r2[0].at(cells[0][1])) == T.treal(r2[0].at(cells[0][1])) + 1)
                    chk.run(cfg, mir)


# ======================================================================================================================
# change of units

from fractions import Fraction as _F

# base units: (density-like unit a, velocity unit b, length unit l)
def _u(*e):
    return tuple(_F(x) for x in e)


UNITS = {
    # kind: (units of the conservative variables, {parameter: unit}, units of the bc parameters)
    "convection": ([_u(1, 0, 0)], {"aconv": _u(0, 1, 0)}, {}),
    "burgers": ([_u(0, 1, 0)], {}, {}),
    "shallowwater": ([_u(1, 0, 0), _u(1, 1, 0)], {"grav": _u(-1, 2, 0)}, {}),
    "euler1d": ([_u(1, 0, 0), _u(1, 1, 0), _u(1, 2, 0)], {"gamma": _u(0, 0, 0)},
                {"ptot": _u(1, 2, 0), "rttot": _u(0, 2, 0), "p": _u(1, 2, 0)}),
}
PRIM_UNITS = {"convection": [_u(1, 0, 0)], "burgers": [_u(0, 1, 0)], "shallowwater": [_u(1, 0, 0), _u(0, 1, 0)],
              "euler1d": [_u(1, 0, 0), _u(0, 1, 0), _u(1, 2, 0)]}
RATE = _u(0, 1, -1)            # 1 / time


def build_units(chk):
    from pyvc.dimcheck import DimChecker, Mismatch
    it = chk.interp
    for kind in ("convection", "burgers", "shallowwater", "euler1d"):
        fluxes = []

        def enum(kind=kind):
            m, info = make_model(chk, kind)
            fluxes.extend(flux_names(m, kind))
        chk.run("units/%s/enumerate" % kind, enum, always=True)
        configs = []
        nums = num_configs(chk)
        for fl in fluxes:                                   # every flux with one reconstruction and the periodic closure
            configs.append((fl, ("extrapol2", "extrapol2", None), ("per", "per")))
        for label, cls, lim in nums:                        # every reconstruction / limiter with one flux
            configs.append((fluxes[0], (label, cls, lim), ("per", "per")))
        for bl, br in bc_pairs(kind):                       # every boundary pair
            configs.append((fluxes[-1], ("extrapol2", "extrapol2", None), (bl, br)))
            configs.append((fluxes[-1], ("extrapol1", "extrapol1", None), (br, bl) if (br, bl) in bc_pairs(kind) else (bl, br)))
        seen = set()
        for fl, (label, cls, lim), (bl, br) in configs:
            key = (fl, label, bl, br)
            if key in seen:
                continue
            seen.add(key)
            cfg = "units/%s/%s/%s/%s-%s" % (kind, fl or "default", label, bl, br)
            chk.configs.append(cfg)
            rp = {"fn": "units_clause", "args": {"kind": kind, "flux": fl, "num": cls, "limiter": lim, "bcL": bl, "bcR": br}}

            def un(kind=kind, fl=fl, cls=cls, lim=lim, bl=bl, br=br, rp=rp):
                n = z3.Int("n")
                assume(n >= 5)
                mesh = abstract_mesh1d(chk, n)
                m, info = make_model(chk, kind)
                qunits, punits, bunits = UNITS[kind]
                decl = {"xf": _u(0, 0, 1), "cfl": _u(0, 0, 0)}
                decl.update(punits)
                bL, bR = bc_dict(kind, bl, "L"), bc_dict(kind, br, "R")
                for side, d in (("L", bL), ("R", bR)):
                    for k, v in d.items():
                        if k == "prim":
                            for j, x in enumerate(v):
                                decl[x.decl().name()] = PRIM_UNITS[kind][j]
                        elif k != "type":
                            decl[v.decl().name()] = bunits[k]
                num = make_num(chk, cls, limiter=lim)
                if cls == "extrapolk":
                    decl["kappa"] = _u(0, 0, 0)
                disc = make_disc1d(chk, m, mesh, num, flux=fl, bcL=bL, bcR=bR)
                Q = []
                for k, uq in enumerate(qunits):
                    arr = A.input_array("Qu%d_" % k, n)
                    decl[arr.uf.name()] = uq
                    Q.append(arr)
                fld = make_field(chk, m, mesh, Q)
                with lazy_safety():
                    res = it.call(it.getattr(disc, "rhs"), [fld], {})
                    cfl = z3.Real("cfl")
                    dts = it.call(it.getattr(disc, "calc_timestep"), [fld, cfl], {})
                ii = z3.Int("i")
                assume(z3.And(ii >= 2, ii <= n - 3))
                cells = [("i=0", 0), ("i=1", 1), ("i=n-2", n - 2), ("i=n-1", n - 1), ("interior", ii)]
                dc = DimChecker(3, decl)
                add = lambda a_, b_: tuple(x + y for x, y in zip(a_, b_))
                for nm, i in cells:
                    for k, cn in enumerate(comp_names(kind)):
                        term = T.treal(res[k].at(i))
                        try:
                            u = dc.unit(term)
                            ok = u == "any" or u == add(qunits[k], RATE)
                            msg = "unit %s, expected %s" % (u, add(qunits[k], RATE))
                        except Mismatch as e:
                            ok, msg = False, str(e)
                        import os
                        if not ok and os.environ.get("C13DBG"):
                            print("DBG", nm, cn, msg[:400], flush=True)
                        prove("residual-is-homogeneous/%s[%s]" % (nm, cn), bool(ok), replay=rp,
                              note=("dimensional typing of the symbolic residual: " + msg)[:300])
                    try:
                        u = dc.unit(T.treal(dts.at(i)))
                        ok = u == "any" or u == _u(0, -1, 1)
                        msg = "unit %s" % (u,)
                    except Mismatch as e:
                        ok, msg = False, str(e)
                    import os
                    if not ok and os.environ.get("C13DBG"):
                        print("DBG dt", nm, msg[:400], flush=True)
                    prove("timestep-is-homogeneous/%s" % nm, bool(ok), replay=rp, note=("dimensional typing: " + msg)[:300])
            chk.run(cfg, un)
    chk.lemmas.append("units: a dimensional typing derivation of a term proves that it is homogeneous of the derived degree in "
                      "the scale factors (induction on the term); integrators and driver: linear in the residuals with "
                      "dimensionless coefficients, the time step has the unit of time (typed above)")
    chk.lemmas.append("units, bit for bit: for power-of-two factors every typed operation commutes exactly with the scaling in "
                      "IEEE arithmetic (no overflow/underflow assumed); exercised on the real code by replay_lib.units_clause")


_build_reflection = build


def build(chk):
    _build_reflection(chk)
    build_units(chk)
    # the leaf contracts the reflection proof instantiates: mirror clause of every 1-D flux (C02) incl. the HLLC selection
    # contract, odd/symmetric limiters (C12)
    from . import C02, C12
    chk.include(C02, r"^(convection|burgers|shallowwater|euler1d)/.*/(mirror|selection)$", "uses:C02")
    chk.include(C12, r"/scalar$", "uses:C12")
    from . import C20
    chk.include(C20, r".", "uses:C20")          # the mesh contract
