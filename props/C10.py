"""C10 — first-order Riemann-flux schemes keep density, pressure and depth positive.

What contracts can carry (DESIGN §6 C10), proved for all admissible states:
  (code)   numflux_hlle / shallowwater numflux_hll / numflux_rusanov return the HLL flux
           F = (sR F_L - sL F_R + sL sR (U_R - U_L)) / (sR - sL) for wave-speed estimates with the Einfeldt bounds
           sL <= min(0, u_L - c_L[, u~ - c~]),  sR >= max(0, u_R + c_R[, u~ + c~])   (Rusanov: -sL = sR >= |u|+c)
  (lemmas) the admissible set is a convex cone; s U - F(U) (s >= u + c) and F(U) - s U (s <= u - c) are admissible;
           the HLL star state is admissible; one explicit Euler step is a convex combination of U_i and the two star
           states provided  lambda (sR^{i-1/2} - sL^{i+1/2}) <= 1   (FACE-SPEED CFL).
The face-speed CFL is NOT implied by the code's cell CFL <= 1/2 (Roe speeds exceed the one-sided speeds by up to ~13 %,
z3 counterexample recorded in DESIGN), SSP stages and HLLC need more: these parts are a labelled BOUNDED stand-in.
"""
import os
import subprocess
import z3
from pyvc import terms as T, arrays as A
from pyvc.framework import prove, canary, assume, watch, lemma, lazy_safety
from contracts import flux_hints
from .common import *
from . import C02


def cons(kind, W, info):
    if kind == "shallowwater":
        return [W[0], W[0] * W[1]]
    g = info["gamma"]
    return [W[0], W[0] * W[1], W[2] / (g - 1) + W[0] * W[1] * W[1] / 2]


def build(chk):
    it = chk.interp
    chk.assumptions += [
        "machine arithmetic treated as mathematical (real) arithmetic",
        "PROVED: HLL form + Einfeldt bounds of the real hlle/hll/rusanov code, cone/half-state/star-state/decomposition lemmas => "
        "one explicit Euler step of the first-order scheme keeps rho,p (h) > 0 under the FACE-SPEED CFL "
        "lambda*(sR_left_face - sL_right_face) <= 1",
        "NOT PROVED (bounded stand-in): positivity at the code's cell CFL in (0,1/2] (the face-speed CFL does not follow from it), "
        "SSP stages (rk2_heun, rk3ssp), HLLC, wall boundaries",
    ]
    # ---- (code) HLL form and Einfeldt bounds --------------------------------------------------------------------------------
    for kind, name in (("euler1d", "hlle"), ("shallowwater", "hll"), ("shallowwater", "rusanov"), ("euler1d", "hllc")):
        rp = {"fn": "flux_clause", "args": {"kind": kind, "flux": name, "normal": None,
                                            "clause": "consistency" if name == "hllc" else "hll-value"}}

        def form(kind=kind, name=name, rp=rp):
            n = z3.Int("n")
            assume(n >= 1)
            m, info = make_model(chk, kind)
            C02.watch_params(info)
            WL, WR = prim_state(kind, n, "L"), prim_state(kind, n, "R")
            i = z3.Int("i")
            assume(z3.And(i >= 0, i < n))
            WLi, WRi = flat_at(WL, i), flat_at(WR, i)
            C02.watch_state("WL", WLi)
            C02.watch_state("WR", WRi)
            H = flux_hints.install(it, kind, name, mirror=False)
            F = C02.run_flux(chk, m, kind, name, WL, WR, None, H, 1)
            it.hints = None
            Fi = flat_at(F, i)
            if name == "rusanov":
                cm = T.treal(H.store[(1, "cmax")]["opaque"].at(i))
                sL, sR = -cm, cm
            else:
                sL = T.treal(H.store[(1, "sL")]["opaque"].at(i))
                sR = T.treal(H.store[(1, "sR")]["opaque"].at(i))
            with T.no_safety():
                if kind == "shallowwater":
                    cL, cR = T.treal(T.sqrt(info["g"] * WLi[0])), T.treal(T.sqrt(info["g"] * WRi[0]))
                else:
                    cL = T.treal(T.sqrt(info["gamma"] * WLi[2] / WLi[0]))
                    cR = T.treal(T.sqrt(info["gamma"] * WRi[2] / WRi[0]))
            uL, uR = WLi[1], WRi[1]
            if name == "hllc":
                # HLLC: only the wave-speed contract its positivity rests on (Batten et al.): the estimates bound the
                # acoustic speeds of both states; the star-state argument itself stays in the bounded stand-in
                # stated on the code's own values of sL, sR (not on the ghost cuts): a wrong estimate is refuted directly
                sLr = T.treal(H.store[(1, "sL")]["real"].at(i))
                sRr = T.treal(H.store[(1, "sR")]["real"].at(i))
                prove("einfeldt-bound/left", sLr <= uL - cL, replay=rp)
                prove("einfeldt-bound/right", sRr >= uR + cR, replay=rp)
                prove("speeds-ordered", sR - sL > 0, replay=rp)
                C02.finish_hints(chk, H)
                return
            if name == "rusanov":
                sLb, sRb = sL, sR
            else:
                # stated on the code's own values of sL, sR (not on the ghost cuts): a wrong estimate is refuted directly
                sLb = T.treal(H.store[(1, "sL")]["real"].at(i))
                sRb = T.treal(H.store[(1, "sR")]["real"].at(i))
            prove("einfeldt-bound/left", z3.And(sLb <= 0, sLb <= uL - cL), replay=rp)
            prove("einfeldt-bound/right", z3.And(sRb >= 0, sRb >= uR + cR), replay=rp)
            if name == "rusanov":
                # stated on the code's own value of cmax (not on the ghost cut): a wrong estimate is refuted directly
                cmr = T.treal(H.store[(1, "cmax")]["real"].at(i))
                prove("rusanov-bound", z3.And(cmr >= zabs(uL) + cL, cmr >= zabs(uR) + cR), replay=rp)
            prove("speeds-ordered", sR - sL > 0, replay=rp)
            fL, fR = physical_flux(kind, WLi, info), physical_flux(kind, WRi, info)
            UL, UR = cons(kind, WLi, info), cons(kind, WRi, info)
            from pyvc.symcheck import rational_identity
            for k, cn in enumerate(comp_names(kind)):
                lhs, rhs = Fi[k] * (sR - sL), sR * fL[k] - sL * fR[k] + sL * sR * (UR[k] - UL[k])
                try:
                    ok = rational_identity(lhs, rhs)
                except ValueError:
                    ok = None
                if ok is None:
                    prove("hll-form[%s]" % cn, lhs == rhs, replay=rp)
                else:
                    # exact rational-function identity over the opaque wave speeds (sympy)
                    prove("hll-form[%s]" % cn, bool(ok), replay=rp, note="sympy: exact rational identity")
            C02.finish_hints(chk, H)
        chk.run("code/%s/%s" % (kind, name), form)

    # ---- (lemmas) Euler ----------------------------------------------------------------------------------------------------------
    def adm(U):
        return z3.And(U[0] > 0, 2 * U[0] * U[2] - U[1] * U[1] > 0)

    def lem_euler():
        g = z3.Real("gamma")
        assume(g > 1)
        r1, m1, E1, r2, m2, E2, al, be = z3.Reals("r1 m1 E1 r2 m2 E2 al be")
        U1, U2 = [r1, m1, E1], [r2, m2, E2]
        assume(z3.And(adm(U1), adm(U2), al >= 0, be >= 0, al + be > 0))
        prove("cone-convexity", adm([al * a + be * b for a, b in zip(U1, U2)]), timeout=60)
    chk.run("lemma/euler/cone", lem_euler)

    def lem_half():
        # half states, written without divisions in (rho, u, p, w = |s-u|):  rho c^2 = gamma p,  E = p/(gamma-1) + rho u^2/2
        g, r, u, p, w, c = z3.Reals("gamma rho u p w c")
        assume(z3.And(g > 1, r > 0, p > 0, c > 0, r * c * c == g * p, w >= c))
        E = p / (g - 1) + r * u * u / 2
        F = [r * u, r * u * u + p, u * (E + p)]
        U = [r, r * u, E]
        s = u + w          # s - u = w >= c
        prove("half-state/right-going", adm([s * a - f for a, f in zip(U, F)]), timeout=60)
        s2 = u - w         # u - s = w >= c
        prove("half-state/left-going", adm([f - s2 * a for a, f in zip(U, F)]), timeout=60)
    chk.run("lemma/euler/half-states", lem_half)

    def lem_decomp():
        # generic vectors componentwise: one component suffices (identities are linear in the vector components)
        UL, UR, FL, FR, sL, sR = z3.Reals("UL UR FL FR sL sR")
        assume(sR - sL > 0)
        Us = (sR * UR - sL * UL - (FR - FL)) / (sR - sL)
        Fh = (sR * FL - sL * FR + sL * sR * (UR - UL)) / (sR - sL)
        prove("hll-flux-from-the-left", Fh == FL + sL * (Us - UL))
        prove("hll-flux-from-the-right", Fh == FR + sR * (Us - UR))
        prove("star-state-is-a-sum-of-half-states", Us * (sR - sL) == (sR * UR - FR) + (FL - sL * UL))
        # explicit Euler step at cell i with the HLL fluxes of its two faces
        Ui, Fi, lam, sLp, sRm, Usp, Usm = z3.Reals("Ui Fi lam sLp sRm Usp Usm")
        Fp = Fi + sLp * (Usp - Ui)       # right face seen from the left state U_i
        Fm = Fi + sRm * (Usm - Ui)       # left face seen from the right state U_i
        Un = Ui - lam * (Fp - Fm)
        prove("step-is-a-combination", Un == (1 + lam * sLp - lam * sRm) * Ui + (-lam * sLp) * Usp + (lam * sRm) * Usm)
        assume(z3.And(lam > 0, sLp <= 0, sRm >= 0, lam * (sRm - sLp) <= 1))
        prove("combination-is-convex", z3.And(1 + lam * sLp - lam * sRm >= 0, -lam * sLp >= 0, lam * sRm >= 0,
                                              (1 + lam * sLp - lam * sRm) + (-lam * sLp) + (lam * sRm) == 1))
    chk.run("lemma/decomposition", lem_decomp)

    def lem_sw():
        g, h, u, s, c = z3.Reals("g h u s c")
        assume(z3.And(g > 0, h > 0, c > 0, c * c == g * h))
        prove("depth-half-state/right-going", z3.Implies(s >= u + c, s * h - h * u > 0))
        prove("depth-half-state/left-going", z3.Implies(s <= u - c, h * u - s * h > 0))
    chk.run("lemma/shallowwater", lem_sw)

    bounded_positivity(chk)


def bounded_positivity(chk):
    code = r'''
import sys, numpy as np, warnings
warnings.filterwarnings("ignore")
import flowdyn.mesh as mesh, flowdyn.modeldisc as md, flowdyn.modelphy.euler as eu, flowdyn.modelphy.shallowwater as sw
import flowdyn.xnum as xnum, flowdyn.integration as ti, flowdyn.field as field
seed = int(sys.argv[1]); nrand = int(sys.argv[2])
rng = np.random.default_rng(seed)
runs = bad = 0
for kind, fluxes in (("euler", ("hlle", "hllc")), ("sw", ("rusanov", "hll"))):
    for flux in fluxes:
        for bc in ("per", "sym"):
            for integ in ("explicit", "rk2_heun", "rk3ssp"):
                for cfl in (0.5, 0.3):
                    for r in range(nrand):
                        n = int(rng.integers(3, 13))
                        msh = mesh.unimesh(ncell=n, length=1.0)
                        if kind == "euler":
                            model = eu.euler1d(gamma=float(rng.choice([1.2, 1.4, 5 / 3])))
                            rho = 10 ** rng.uniform(-1.5, 1.5, n); p = 10 ** rng.uniform(-1.5, 1.5, n)
                            c = np.sqrt(model.gamma * p / rho); u = rng.uniform(-3, 3, n) * c
                            if r % 3 == 0:
                                k = n // 2; rho[:k], rho[k:] = rho[0], rho[-1]; p[:k], p[k:] = p[0], p[-1]; u[:k], u[k:] = u[0], u[-1]
                            prim = [rho, u, p]
                        else:
                            model = sw.shallowwater1d()
                            h = 10 ** rng.uniform(-1.5, 1.5, n); u = rng.uniform(-3, 3, n) * np.sqrt(model.g * h)
                            prim = [h, u]
                        b = {"type": bc}
                        disc = md.fvm1d(model, msh, xnum.extrapol1(), numflux=flux, bcL=b, bcR=b)
                        f = field.fdata(model, msh, model.prim2cons(prim))
                        s = getattr(ti, integ)(msh, disc)
                        ok = True
                        for it in range(6):
                            dt = float(np.min(disc.calc_timestep(f, cfl)))
                            s.step(f, dt)
                            q = f.data
                            if kind == "euler":
                                pr = model.pressure(q)
                                ok = np.all(np.isfinite(q[0])) and np.all(q[0] > 0) and np.all(np.isfinite(pr)) and np.all(pr > 0)
                            else:
                                ok = np.all(np.isfinite(q[0])) and np.all(q[0] > 0)
                            if not ok:
                                break
                        runs += 1
                        if not ok:
                            bad += 1
                            if bad <= 3:
                                print("POSITIVITY FAIL", kind, flux, bc, integ, cfl, [x.tolist() for x in prim])
print("RUNS", runs, "BAD", bad)
'''
    nrand = 12 if chk.tier == "quick" else 400
    try:
        p = subprocess.run(["/venv/bin/python", "-c", code, str(chk.seed), str(nrand)], capture_output=True, text=True,
                           timeout=3000, env=dict(os.environ, PYTHONPATH=os.environ.get("FLOWDYN_REPO", "/repo")))
        out = p.stdout.strip().splitlines()
        last = out[-1] if out else ""
        runs = int(last.split()[1]) if last.startswith("RUNS") else 0
        bad = int(last.split()[3]) if last.startswith("RUNS") else -1
        chk.bounded.append({"what": "positivity of rho,p (h) over 6 steps of the real first-order solver: hlle/hllc, rusanov/hll x per/sym x "
                                    "explicit/rk2_heun/rk3ssp x CFL .5/.3",
                            "bound": "%d seeded random / piecewise-constant fields per config, 3-12 cells, ratios up to 1e3, |M|,|Fr| <= 3" % nrand,
                            "runs": runs, "failures": bad, "counted_as_proved": False, "stderr": p.stderr[-200:]})
        if bad != 0:
            rp = None
            for l in out:
                if l.startswith("POSITIVITY FAIL"):
                    import ast as _ast
                    w = l.split(None, 7)
                    rp = {"fn": "positivity_clause", "args": {"kind": w[2], "flux": w[3], "bc": w[4], "integ": w[5], "cfl": float(w[6]),
                                                              "prim": _ast.literal_eval(w[7])}}
                    break
            chk.native("bounded/first-order-positivity (BOUNDED stand-in, concrete failure)", False, "\n".join(out[:4]), replay=rp,
                       backend="bounded")
    except Exception as e:
        chk.notes.append("bounded positivity stand-in could not be run: %r" % (e,))
