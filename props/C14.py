"""C14 — periodic boundaries are seamless (translation invariance).

Relational obligations on the real code: fvm1d.rhs is executed symbolically on data Q and on the
data shifted cyclically by one cell, on the uniform periodic mesh through its contract (C20; symbolic ncell >= 6: the
five seam cells and a generic interior cell; ncell = 1..5 concrete), for every model and
reconstruction; numflux through its contract (one pointwise function of the face states).
Obligation: res'[k][i] == res[k][(i-1) mod n] at every cell.  A shift by any number of cells is a
composition of one-cell shifts (lemma), the time step is shift-equivariant and its minimum
shift-invariant, so every integrator and the driver commute with the shift (normal forms C05/C06).
"""
import z3
from pyvc import terms as T, arrays as A
from pyvc.framework import prove, canary, assume, watch, lemma, lazy_safety
from contracts.flux_contract import use_flux_contract
from .common import *
from .C17 import cons_from_prim


def wrap(j, n):
    if not T.is_sym(j) and not T.is_sym(n):
        return j % n
    j = T.simp(j) if T.is_sym(j) else j
    return T.simp(T.ite(T.lt(j, 0), T.add(j, n), T.ite(T.ge(j, n), T.sub(j, n), j)))


def shifted(arr, n, k=1):
    """cyclic shift by k cells: new[i] = old[(i-k) mod n]"""
    if isinstance(arr, A.Sym2D):
        return A.Sym2D([shifted(r, n, k) for r in arr.rows])
    at = arr._snapshot_at()
    return A.SymArray(n, lambda i: at(wrap(T.sub(i, k), n)), name="shifted")


def build(chk):
    it = chk.interp
    chk.assumptions += [
        "machine arithmetic treated as mathematical (real) arithmetic",
        "numflux through its contract: one deterministic pointwise function of the two face states (frame proved in C01)",
        "a cyclic shift by k cells is the k-fold composition of the one-cell shift (lemma); min over cells is invariant "
        "under permutations (lemma); integrators/driver by the normal forms of C05/C06/C07",
        "2-D (shifts along x and y) is decided with the 2-D machinery (not yet claimed here)",
    ]
    for kind in ("convection", "burgers", "shallowwater", "euler1d", "nozzle"):
        for label, cls, lim in num_configs(chk):
            for ncase in ("n>=6", 1, 2, 3, 4, 5):
                if chk.tier == "quick" and ncase != "n>=6" and not (cls in ("extrapol2", "muscl") and (lim in (None, "minmod"))):
                    continue
                if chk.tier == "quick" and not (cls in ("extrapol1", "extrapol2", "extrapolk", "muscl") and lim in (None, "minmod", "vanleer")):
                    continue        # quick: one representative per reconstruction family; thorough: all
                if kind == "nozzle" and cls not in ("extrapol2",):
                    continue     # same operator code as euler1d; the sources are checked with one reconstruction
                cfg = "fvm1d/%s/%s/n=%s" % (kind, label, ncase)
                chk.configs.append(cfg)
                rp = {"fn": "shift_clause", "args": {"kind": kind, "num": cls, "limiter": lim}}

                def sh(kind=kind, cls=cls, lim=lim, ncase=ncase, rp=rp):
                    if ncase == "n>=6":
                        n = z3.Int("n")
                        assume(n >= 6)
                    else:
                        n = ncase
                    mesh, hcell, x0 = abstract_unimesh(chk, n)
                    m, info = make_model(chk, kind, params={"Aconst": True})
                    num = make_num(chk, cls, limiter=lim)
                    disc = make_disc1d(chk, m, mesh, num)
                    P = prim_state(kind, n, "W")
                    Q1 = cons_from_prim(kind, P, info)
                    Q2 = [shifted(q, n) for q in Q1]
                    f1 = make_field(chk, m, mesh, Q1)
                    f2 = make_field(chk, m, mesh, Q2)
                    with use_flux_contract(it, kind, info, clauses=(), requires=False), lazy_safety():
                        r1 = [r for r in it.call(it.getattr(disc, "rhs"), [f1], {})]
                        r1 = [r.copy() for r in r1]
                        r2 = it.call(it.getattr(disc, "rhs"), [f2], {})
                    if T.is_sym(n):
                        ii = z3.Int("i")
                        assume(z3.And(ii >= 3, ii <= n - 3))
                        cells = [("i=0", 0), ("i=1", 1), ("i=2", 2), ("i=n-2", n - 2), ("i=n-1", n - 1), ("interior", ii)]
                    else:
                        cells = [("i=%d" % k, k) for k in range(n)]
                    for nm, i in cells:
                        for k, cn in enumerate(comp_names(kind)):
                            prove("shift-equivariant/%s[%s]" % (nm, cn),
                                  T.treal(r2[k].at(i)) == T.treal(r1[k].at(wrap(T.sub(i, 1), n))), replay=rp)
                    # time step: shift-equivariant (pointwise function of the cell state and the uniform cell size)
                    cfl = z3.Real("cfl")
                    assume(cfl > 0)
                    with lazy_safety():
                        d1 = it.call(it.getattr(disc, "calc_timestep"), [f1, cfl], {})
                        d2 = it.call(it.getattr(disc, "calc_timestep"), [f2, cfl], {})
                    for nm, i in cells:
                        prove("timestep-shift-equivariant/%s" % nm, T.treal(d2.at(i)) == T.treal(d1.at(wrap(T.sub(i, 1), n))), replay=rp)
                    canary("canary", T.treal(r2[0].at(cells[0][1])) == T.treal(r1[0].at(cells[0][1])) + 1)
                chk.run(cfg, sh)
