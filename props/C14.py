"""C14 — periodic boundaries are seamless (translation invariance).

Relational obligations on the real code: fvm1d.rhs is executed symbolically on data Q and on the
data shifted cyclically by one cell, on the uniform periodic mesh through its contract (C20; symbolic ncell >= 6: the
five seam cells and a generic interior cell; ncell = 1..5 concrete), for every model and
reconstruction; numflux through its contract (one pointwise function of the face states).
Obligation: res'[k][i] == res[k][(i-1) mod n] at every cell.  A shift by any number of cells is a
composition of one-cell shifts (lemma), the time step is shift-equivariant and its minimum
shift-invariant, so every integrator and the driver commute with the shift (normal forms C05/C06).
"""
import z3
from pyvc import terms as T, arrays as A
from pyvc.framework import prove, canary, assume, watch, lemma, lazy_safety
from contracts.flux_contract import use_flux_contract
from .common import *
from .C17 import cons_from_prim


def wrap(j, n):
    if not T.is_sym(j) and not T.is_sym(n):
        return j % n
    j = T.simp(j) if T.is_sym(j) else j
    return T.simp(T.ite(T.lt(j, 0), T.add(j, n), T.ite(T.ge(j, n), T.sub(j, n), j)))


def shifted(arr, n, k=1):
    """cyclic shift by k cells: new[i] = old[(i-k) mod n]"""
    if isinstance(arr, A.Sym2D):
        return A.Sym2D([shifted(r, n, k) for r in arr.rows])
    at = arr._snapshot_at()
    return A.SymArray(n, lambda i: at(wrap(T.sub(i, k), n)), name="shifted")


def build(chk):
    it = chk.interp
    chk.assumptions += [
        "machine arithmetic treated as mathematical (real) arithmetic",
        "numflux through its contract: one deterministic pointwise function of the two face states (frame proved in C01)",
        "a cyclic shift by k cells is the k-fold composition of the one-cell shift (lemma); min over cells is invariant "
        "under permutations (lemma); integrators/driver by the normal forms of C05/C06/C07",
        "2-D: fvm2dcart.rhs on the periodic Cartesian grid (symbolic nx, ny >= 1, lx, ly, kappa), shift by one cell along x or y; "
        "cons2prim and numflux through their pointwise contracts (leaf clauses in C15 cons2prim/*, C01 flux/*/pointwise)",
    ]
    for kind in ("convection", "burgers", "shallowwater", "euler1d", "nozzle"):
        for label, cls, lim in num_configs(chk):
            for ncase in ("n>=6", 1, 2, 3, 4, 5):
                if chk.tier == "quick" and ncase != "n>=6" and not (cls in ("extrapol2", "muscl") and (lim in (None, "minmod"))):
                    continue
                if chk.tier == "quick" and not (cls in ("extrapol1", "extrapol2", "extrapolk", "muscl") and lim in (None, "minmod", "vanleer")):
                    continue        # quick: one representative per reconstruction family; thorough: all
                if kind == "nozzle" and cls not in ("extrapol2",):
                    continue     # same operator code as euler1d; the sources are checked with one reconstruction
                cfg = "fvm1d/%s/%s/n=%s" % (kind, label, ncase)
                chk.configs.append(cfg)
                rp = {"fn": "shift_clause", "args": {"kind": kind, "num": cls, "limiter": lim}}

                def sh(kind=kind, cls=cls, lim=lim, ncase=ncase, rp=rp):
                    if ncase == "n>=6":
                        n = z3.Int("n")
                        assume(n >= 6)
                    else:
                        n = ncase
                    mesh, hcell, x0 = abstract_unimesh(chk, n)
                    m, info = make_model(chk, kind, params={"Aconst": True})
                    num = make_num(chk, cls, limiter=lim)
                    disc = make_disc1d(chk, m, mesh, num)
                    P = prim_state(kind, n, "W")
                    Q1 = cons_from_prim(kind, P, info)
                    Q2 = [shifted(q, n) for q in Q1]
                    f1 = make_field(chk, m, mesh, Q1)
                    f2 = make_field(chk, m, mesh, Q2)
                    with use_flux_contract(it, kind, info, clauses=(), requires=False), lazy_safety():
                        r1 = [r for r in it.call(it.getattr(disc, "rhs"), [f1], {})]
                        r1 = [r.copy() for r in r1]
                        r2 = it.call(it.getattr(disc, "rhs"), [f2], {})
                    if T.is_sym(n):
                        ii = z3.Int("i")
                        assume(z3.And(ii >= 3, ii <= n - 3))
                        cells = [("i=0", 0), ("i=1", 1), ("i=2", 2), ("i=n-2", n - 2), ("i=n-1", n - 1), ("interior", ii)]
                    else:
                        cells = [("i=%d" % k, k) for k in range(n)]
                    for nm, i in cells:
                        for k, cn in enumerate(comp_names(kind)):
                            prove("shift-equivariant/%s[%s]" % (nm, cn),
                                  T.treal(r2[k].at(i)) == T.treal(r1[k].at(wrap(T.sub(i, 1), n))), replay=rp)
                    # time step: shift-equivariant (pointwise function of the cell state and the uniform cell size)
                    cfl = z3.Real("cfl")
                    assume(cfl > 0)
                    with lazy_safety():
                        d1 = it.call(it.getattr(disc, "calc_timestep"), [f1, cfl], {})
                        d2 = it.call(it.getattr(disc, "calc_timestep"), [f2, cfl], {})
                    for nm, i in cells:
                        prove("timestep-shift-equivariant/%s" % nm, T.treal(d2.at(i)) == T.treal(d1.at(wrap(T.sub(i, 1), n))), replay=rp)
                    canary("canary", T.treal(r2[0].at(cells[0][1])) == T.treal(r1[0].at(cells[0][1])) + 1)
                chk.run(cfg, sh)


def build2d(chk):
    """2-D: the residual of the data shifted cyclically by one cell along x (y) is the shifted residual, at a generic cell"""
    from .C15 import cell_array, C2PContract, cons_arrays, xface, yface, QN_C2P, EX, EY
    it = chk.interp
    for numname, haskappa in (("extrapol2d1", False), ("extrapol2dk", True)):
        for dn in ("x", "y"):
            cfg = "fvm2dcart/euler2d/%s/shift-along-%s" % (numname, dn)
            chk.configs.append(cfg)
            rp = {"fn": "shift2d_clause", "args": {"num": numname, "direction": dn}}

            def sh(numname=numname, haskappa=haskappa, dn=dn, rp=rp):
                nx, ny = z3.Int("nx"), z3.Int("ny")
                lx, ly = z3.Real("lx"), z3.Real("ly")
                assume(z3.And(nx >= 1, ny >= 1, lx > 0, ly > 0))
                a, b = z3.Int("a"), z3.Int("b")            # generic cell: row a, column b
                assume(z3.And(a >= 0, a < ny, b >= 0, b < nx))
                lemma("index-products", z3.And(a * nx >= 0, (ny - 1 - a) * nx >= 0, (nx - 1) * (ny - 1) >= 0))
                for t in (0, 1, 2, 3):
                    lemma("index-products/a/%d" % t,
                          z3.And(z3.Implies(a >= t, (a - t) * nx >= 0), z3.Implies(a <= t, (t - a) * nx >= 0),
                                 z3.Implies(a <= ny - 1 - t, (ny - 1 - t - a) * nx >= 0),
                                 z3.Implies(a >= ny - 1 - t, (a - (ny - 1 - t)) * nx >= 0)))
                mesh = it.call(get(chk, "flowdyn.mesh2d", "mesh2d"), [nx, ny, lx, ly], {})
                m, info = make_model(chk, "euler2d")
                num = it.call(get(chk, "flowdyn.xnum", numname), [z3.Real("kappa")] if haskappa else [], {})
                per = {"type": "per"}
                bc = {"left": per, "right": per, "bottom": per, "top": per}
                dcls = get(chk, "flowdyn.modeldisc", "fvm2dcart")
                d1 = it.call(dcls, [m, mesh, num, bc], {})
                d2 = it.call(dcls, [m, mesh, num, bc], {})
                n = nx * ny
                Q1 = cons_arrays(n)
                q1 = [Q1[0]._snapshot_at(), Q1[1].rows[0]._snapshot_at(), Q1[1].rows[1]._snapshot_at(), Q1[2]._snapshot_at()]
                prev = lambda v, N: z3.If(v >= 1, v - 1, N - 1)      # cyclic predecessor
                if dn == "x":
                    cellmap = lambda r, c: r * nx + prev(c, nx)
                else:
                    cellmap = lambda r, c: prev(r, ny) * nx + c

                def comp(k):
                    def val(r, c):
                        i = cellmap(r, c)
                        i = T.simp(i) if T.is_sym(i) else i
                        return T.treal(q1[k](i))
                    return cell_array(n, nx, val)
                Q2 = [comp(0), A.Sym2D([comp(1), comp(2)]), comp(3)]
                f1, f2 = make_field(chk, m, mesh, Q1), make_field(chk, m, mesh, Q2)
                it.contracts[QN_C2P] = C2PContract()
                it.active_contracts.add(QN_C2P)
                try:
                    with use_flux_contract(it, "euler2d", info, clauses=(), requires=False, opaque=True) as fc, lazy_safety():
                        res1 = [r.copy() for r in it.call(it.getattr(d1, "rhs"), [f1], {})]
                        rec1 = fc.last
                        res2 = it.call(it.getattr(d2, "rhs"), [f2], {})
                        rec2 = fc.last
                        cfl = z3.Real("cfl")
                        assume(cfl > 0)
                        t1 = it.call(it.getattr(d1, "calc_timestep"), [f1, cfl], {})
                        t2 = it.call(it.getattr(d2, "calc_timestep"), [f2, cfl], {})
                finally:
                    it.active_contracts.discard(QN_C2P)
                r1, c1 = (a, prev(b, nx)) if dn == "x" else (prev(a, ny), b)
                faces = []
                for dF in (0, 1):
                    faces.append(("x%d" % dF, xface(nx, a, b + dF), xface(nx, r1, c1 + dF)))
                    faces.append(("y%d" % dF, yface(nx, ny, a + dF, b), yface(nx, ny, r1 + dF, c1)))
                names = ("rho", "ux", "uy", "p")
                for fname, f2i, f1i in faces:
                    f1i = T.simp(f1i)
                    a2, a1 = rec2["args_at"](f2i), rec1["args_at"](f1i)
                    for j, (x, y) in enumerate(zip(a1[:8], a2[:8])):
                        lemma("face-states/%s/%s[%s]" % (fname, "L" if j < 4 else "R", names[j % 4]), y == x)
                    same = z3.And(*[y == x for x, y in zip(a1, a2)])
                    for g1, g2 in zip(rec1["G"], rec2["G"]):
                        gg = T.treal(g2.at(f2i))
                        T.cur().add_fact(z3.Implies(same, gg == T.treal(g1.at(f1i))), trigger=gg)
                    lemma("flux-arguments-are-equal/%s" % fname, same)
                cell1 = T.simp(r1 * nx + c1)
                r2f, r1f = flat_at(res2, a * nx + b), flat_at(res1, cell1)
                for k, cn in enumerate(comp_names("euler2d")):
                    prove("shift-equivariant[%s]" % cn, r2f[k] == r1f[k], replay=rp)
                prove("timestep-shift-equivariant", T.treal(t2.at(a * nx + b)) == T.treal(t1.at(cell1)), replay=rp)
                canary("canary", r2f[0] == r2f[0] + 1)
            chk.run(cfg, sh)
    chk.lemmas.append("2-D: a shift by (kx, ky) cells is a composition of one-cell shifts along x and y")


_build1d = build


def build(chk):
    _build1d(chk)
    build2d(chk)
    # the pointwise contracts the relational proof instantiates: every flux body (C01 flux/*/pointwise), cons2prim (C15)
    from . import C01, C15
    chk.include(C01, r"^flux/.*/pointwise$", "uses:C01")
    chk.include(C15, r"^cons2prim/(transpose|one-dimensional/x)$", "uses:C15")
    from . import C20
    chk.include(C20, r".", "uses:C20")          # the mesh contract (uniform mesh, 2-D index tables)
