"""C20 — meshes are valid partitions with consistent connectivity.

The real constructors are executed symbolically with a symbolic number of cells and
symbolic lengths/origins/ratios (numpy's linspace/append/arange/repeat by their documented
semantics, `int()` as truncation, the centre loop by the parallel-map rule); the obligations
are stated at generic indices.  Sums over a symbolic number of cells use the sum-induction
lemma (premises proved, conclusion = telescoping).
"""
import z3
from pyvc import terms as T, arrays as A, npmodel
from pyvc.framework import prove, canary, assume, watch, lemma, sum_by_induction
from pyvc.interp import UserFunc
from .common import *


def common_1d(chk, mesh, n, x_first, x_last, rp, monotone_hint=None):
    it = chk.interp
    xf, xc = mesh.attrs["xf"], mesh.attrs["xc"]
    i = z3.Int("i")
    assume(z3.And(i >= 0, i < n))
    prove("faces/count", T.eq(xf.length, n + 1), replay=rp)
    prove("centres/count", T.eq(xc.length, n), replay=rp)
    prove("ncell", T.eq(mesh.attrs["ncell"], n), replay=rp)
    fi, fi1 = T.treal(xf.at(i)), T.treal(xf.at(i + 1))
    if monotone_hint:
        monotone_hint(i)
    prove("faces/strictly-increasing", fi < fi1, replay=rp)
    prove("faces/first", T.treal(xf.at(0)) == x_first, replay=rp)
    prove("faces/last", T.treal(xf.at(n)) == x_last, replay=rp)
    prove("centres/midpoints", T.treal(xc.at(i)) == (fi + fi1) / 2, replay=rp)
    cen = it.call(it.getattr(mesh, "centers"), [], {})
    prove("centres/accessor", T.treal(cen.at(i)) == (fi + fi1) / 2, replay=rp)
    vol = it.call(it.getattr(mesh, "vol"), [], {})
    prove("volumes/count", T.eq(vol.length, n), replay=rp)
    prove("volumes/value", T.treal(vol.at(i)) == fi1 - fi, replay=rp)
    prove("volumes/positive", T.treal(vol.at(i)) > 0, replay=rp)
    dx = it.call(it.getattr(mesh, "dx"), [], {})
    prove("dx-is-vol", T.treal(dx.at(i)) == fi1 - fi, replay=rp)
    prove("nbfaces", T.eq(it.call(it.getattr(mesh, "nbfaces"), [], {}), n + 1), replay=rp)
    # sums over the cells: lemma sum-induction with closed-form candidates (telescoping)
    c = z3.Real("cst")
    T.cur().ghost.setdefault("sum_rules", []).append(
        lambda at, nn: [("volumes", lambda k: T.sub(xf.at(k), xf.at(0))),
                        ("weighted-constant", lambda k: T.mul(c, T.sub(xf.at(k), xf.at(0))))])
    S = npmodel.array_sum(vol)
    prove("volumes/sum-is-length", T.treal(S) == T.treal(xf.at(n)) - T.treal(xf.at(0)), replay=rp)
    # volume-weighted average exact for constants
    data = A.full(n, c)
    avg = it.call(it.getattr(mesh, "average"), [data], {})
    prove("average/exact-for-constants", T.treal(avg) == c, replay=rp)
    canary("canary", fi >= fi1)


def build(chk):
    it = chk.interp
    chk.assumptions += [
        "machine arithmetic treated as mathematical (real) arithmetic; int() is truncation on reals "
        "(float caveat: proportions that are whole only in decimal, e.g. nratioa=0.3,nratiob=0.1, are not whole as floats: "
        "such inputs do not satisfy the statement's hypothesis)",
        "numpy linspace/append/arange/repeat/average by their documented elementwise semantics",
        "lemma sum-induction (telescoping) for sums over a symbolic number of cells: premises proved by z3, schema "
        "= Finset.sum_range_succ induction",
        "a morphing function is an uninterpreted strictly increasing function",
    ]

    for cls in ("mesh1d", "unimesh"):
        def uni(cls=cls):
            n = z3.Int("n")
            L, x0 = z3.Real("L"), z3.Real("x0")
            assume(z3.And(n >= 1, L > 0))
            for k, v in (("n", n), ("L", L), ("x0", x0)):
                watch(k, v)
            T.cur().ghost["default_samples"] = [{"n": str(nn), "L": l, "x0": x} for nn in (1, 2, 3, 10, 101)
                                                for l in ("1", "0.3", "7") for x in ("0", "-2.5", "0.1")]
            mesh = it.call(get(chk, "flowdyn.mesh", cls), [], {"ncell": n, "length": L, "x0": x0})
            rp = {"fn": "mesh_clause", "args": {"cls": cls}}
            common_1d(chk, mesh, n, x0, x0 + L, rp)
            i = z3.Int("i")
            prove("uniform", T.treal(mesh.attrs["xf"].at(i)) == x0 + z3.ToReal(i) * L / z3.ToReal(n), replay=rp)
            prove("length", T.treal(mesh.attrs["length"]) == L, replay=rp)
        chk.run("%s" % cls, uni)

    def refined():
        n, k = z3.Int("n"), z3.Int("k1")
        L, ratio, a, b = z3.Real("L"), z3.Real("ratio"), z3.Real("a"), z3.Real("b")
        assume(z3.And(n >= 1, L > 0, ratio > 0, a >= 0, b >= 0, a + b > 0))
        # hypothesis of the statement: the zone proportion corresponds to a whole number k of cells
        assume(z3.And(k >= 0, k <= n, z3.ToReal(k) * (a + b) == z3.ToReal(n) * a))
        for nm, v in (("n", n), ("L", L), ("ratio", ratio), ("a", a), ("b", b)):
            watch(nm, v)
        T.cur().ghost["default_samples"] = [
            {"n": str(nn), "L": "2", "ratio": r, "a": aa, "b": bb}
            for nn in (1, 2, 4, 6, 12, 100) for r in ("2", "0.5", "1", "3.5")
            for aa, bb in (("1", "1"), ("1", "3"), ("3", "1"), ("1", "0"), ("0", "1"), ("1", "2"))]
        mesh = it.call(get(chk, "flowdyn.mesh", "refinedmesh"), [],
                       {"ncell": n, "length": L, "ratio": ratio, "nratioa": a, "nratiob": b})
        rp = {"fn": "mesh_clause", "args": {"cls": "refinedmesh"}}
        xf = mesh.attrs["xf"]
        nr = z3.ToReal(n)
        dx1 = (a + b) * L / ((a + ratio * b) * nr)
        lemma("zone-count", z3.ToInt(nr * a / (a + b)) == k)

        def hint(i):
            # the two zones meet at face k: instantiate both branches of the concatenation
            lemma("first-zone-end", z3.ToReal(k) * dx1 * (a + ratio * b) == a * L)
        common_1d(chk, mesh, n, z3.RealVal(0), L, rp, monotone_hint=hint)
        i = z3.Int("i")
        size = T.treal(xf.at(i + 1)) - T.treal(xf.at(i))
        prove("zone1-uniform", z3.Implies(i < k, size == dx1), replay=rp)
        prove("zone2-uniform-with-ratio", z3.Implies(i >= k, size == ratio * dx1), replay=rp)
    chk.run("refinedmesh", refined)

    def morphed():
        n = z3.Int("n")
        L, x0 = z3.Real("L"), z3.Real("x0")
        assume(z3.And(n >= 1, L > 0))
        Mf = z3.Function("morph", z3.RealSort(), z3.RealSort())
        seen = []

        def morph(x):
            def one(v):
                tv = T.treal(v)
                t = Mf(tv)
                for w in seen:
                    T.cur().add_fact(z3.And(z3.Implies(w < tv, Mf(w) < t), z3.Implies(tv < w, t < Mf(w))))
                if not any(w.eq(tv) for w in seen):
                    seen.append(tv)
                return t
            return A.elementwise(one, [x], name="morph")
        mesh = it.call(get(chk, "flowdyn.mesh", "morphedmesh"), [],
                       {"ncell": n, "length": L, "x0": x0, "morph": UserFunc("morph", morph)})
        rp = {"fn": "mesh_clause", "args": {"cls": "morphedmesh"}}
        common_1d(chk, mesh, n, Mf(x0), Mf(x0 + L), rp)
    chk.run("morphedmesh", morphed)

    def m2d():
        nx, ny = z3.Int("nx"), z3.Int("ny")
        lx, ly = z3.Real("lx"), z3.Real("ly")
        assume(z3.And(nx >= 1, ny >= 1, lx > 0, ly > 0))
        for nm, v in (("nx", nx), ("ny", ny)):
            watch(nm, v)
        rp = {"fn": "mesh2d_clause", "args": {}}
        mesh = it.call(get(chk, "flowdyn.mesh2d", "mesh2d"), [nx, ny, lx, ly], {})
        prove("ncell", T.eq(mesh.attrs["ncell"], nx * ny), replay=rp)
        prove("nbfaces", T.eq(it.call(it.getattr(mesh, "nbfaces"), [], {}), (nx + 1) * ny + nx * (ny + 1)), replay=rp)
        vol = it.call(it.getattr(mesh, "vol"), [], {})
        i = z3.Int("i")
        assume(z3.And(i >= 0, i < nx * ny))
        dx, dy = lx / z3.ToReal(nx), ly / z3.ToReal(ny)
        prove("vol/count", T.eq(vol.length, nx * ny), replay=rp)
        prove("vol/value", T.treal(vol.at(i)) == dx * dy, replay=rp)
        prove("dx", T.treal(it.call(it.getattr(mesh, "dx"), [], {})) == dx, replay=rp)
        prove("dy", T.treal(it.call(it.getattr(mesh, "dy"), [], {})) == dy, replay=rp)
        tags = it.call(it.getattr(mesh, "list_of_bctags"), [], {})
        prove("tags", sorted(tags) == ["bottom", "left", "right", "top"], replay=rp)
        nxf = ny * (nx + 1)
        # independent characterisation of boundary faces from the row-wise numbering
        #   i-face f = j*(nx+1)+r (0<=j<ny, 0<=r<=nx): boundary iff r==0 (left) or r==nx (right)
        #   j-face f = nxf + J*nx + c (0<=J<=ny, 0<=c<nx): boundary iff J==0 (bottom) or J==ny (top)
        spec = {"left": lambda k: k * (nx + 1) + 0, "right": lambda k: k * (nx + 1) + nx,
                "bottom": lambda k: nxf + 0 * nx + k, "top": lambda k: nxf + ny * nx + k}
        cnt = {"left": ny, "right": ny, "bottom": nx, "top": nx}
        tabs = {}
        k = z3.Int("k")
        for tag in ("left", "right", "bottom", "top"):
            tab = it.call(it.getattr(mesh, "index_of_bc"), [tag], {})
            tabs[tag] = tab
            prove("table/%s/count" % tag, T.eq(tab.length, cnt[tag]), replay=rp)
            prove("table/%s/is-the-boundary-face" % tag,
                  z3.Implies(z3.And(k >= 0, k < cnt[tag]), T.tz(tab.at(k)) == spec[tag](k)), replay=rp,
                  note="entry k is the boundary face of row/column k; with the count this is a bijection onto that side")
        k2 = z3.Int("k2")
        names = ["left", "right", "bottom", "top"]
        for a_ in range(4):
            for b_ in range(a_ + 1, 4):
                ta, tb = names[a_], names[b_]
                prove("tables-disjoint/%s-%s" % (ta, tb),
                      z3.Implies(z3.And(k >= 0, k < cnt[ta], k2 >= 0, k2 < cnt[tb]),
                                 T.tz(tabs[ta].at(k)) != T.tz(tabs[tb].at(k2))), replay=rp)
        for tag in names:
            prove("table/%s/injective" % tag,
                  z3.Implies(z3.And(k >= 0, k < cnt[tag], k2 >= 0, k2 < cnt[tag], k != k2),
                             T.tz(tabs[tag].at(k)) != T.tz(tabs[tag].at(k2))), replay=rp)
        # covering: every boundary face is in its side's table (position = row / column)
        j, r, J, c = z3.Ints("j r J c")
        prove("cover/i-faces", z3.Implies(z3.And(j >= 0, j < ny),
                                          z3.And(T.tz(tabs["left"].at(j)) == j * (nx + 1),
                                                 T.tz(tabs["right"].at(j)) == j * (nx + 1) + nx)), replay=rp)
        prove("cover/j-faces", z3.Implies(z3.And(c >= 0, c < nx),
                                          z3.And(T.tz(tabs["bottom"].at(c)) == nxf + c,
                                                 T.tz(tabs["top"].at(c)) == nxf + ny * nx + c)), replay=rp)
        # interior faces are in no table
        f = z3.Int("f")
        prove("interior-i-faces-in-no-table",
              z3.Implies(z3.And(j >= 0, j < ny, r > 0, r < nx, k >= 0, k < ny),
                         z3.And(T.tz(tabs["left"].at(k)) != j * (nx + 1) + r, T.tz(tabs["right"].at(k)) != j * (nx + 1) + r)),
              replay=rp)
        prove("interior-j-faces-in-no-table",
              z3.Implies(z3.And(J > 0, J < ny, c >= 0, c < nx, k >= 0, k < nx),
                         z3.And(T.tz(tabs["bottom"].at(k)) != nxf + J * nx + c, T.tz(tabs["top"].at(k)) != nxf + J * nx + c)),
              replay=rp)
        # orientation and normals
        want_or = {"left": "inward", "bottom": "inward", "right": "outward", "top": "outward"}
        want_n = {"left": (-1, 0), "right": (1, 0), "bottom": (0, -1), "top": (0, 1)}
        for tag in names:
            o = it.call(it.getattr(mesh, "bcface_orientation"), [tag], {})
            prove("orientation/%s" % tag, o == want_or[tag], replay=rp)
            nrm = it.call(it.getattr(mesh, "normal_of_bc"), [tag], {})
            ok = isinstance(nrm, A.Sym2D) and nrm.nrows == 2
            prove("normal/%s/shape" % tag, bool(ok) and T.eq(nrm.length, cnt[tag]), replay=rp)
            if ok:
                prove("normal/%s/outward-unit" % tag,
                      z3.Implies(z3.And(k >= 0, k < cnt[tag]),
                                 z3.And(T.treal(nrm.rows[0].at(k)) == want_n[tag][0],
                                        T.treal(nrm.rows[1].at(k)) == want_n[tag][1])), replay=rp)
        canary("canary", T.treal(vol.at(i)) <= 0)
    chk.run("mesh2d", m2d)
