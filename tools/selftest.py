#!/usr/local/bin/python3-vt
"""engine self-test run by setup_cmd: the interpreter loads the real sources, a trivially
false obligation is refuted and a trivially true one proved (guards against a solver or
pool that answers 'proved' to everything)"""
import os, sys
sys.path.insert(0, os.path.dirname(os.path.dirname(os.path.abspath(__file__))))
import z3
from pyvc.framework import Check, prove
from pyvc import terms as T


def main():
    chk = Check("SELFTEST")
    for m in ("flowdyn.modelphy.euler", "flowdyn.modelphy.shallowwater", "flowdyn.modelphy.burgers",
              "flowdyn.modelphy.convection", "flowdyn.xnum", "flowdyn.mesh", "flowdyn.mesh2d", "flowdyn.modeldisc",
              "flowdyn.integration", "flowdyn.field"):
        chk.interp.load(m)

    def h():
        x = z3.Real("x")
        prove("true", z3.Implies(x > 1, x * x > 1))
        prove("false", x * x > 1, expect="refuted")
    chk.run("selftest", h)
    from pyvc import discharge
    tasks = []
    for ob in chk.obligations:
        text, _ = discharge.to_smt2(ob)
        tasks.append((ob.name, text, 10.0, {"steps": ["z3"]}))
    res = discharge.run_all(tasks, procs=2)
    st = sorted((k.split("/")[-1], v["status"]) for k, v in res.items())
    ok = st == [("false", "refuted"), ("true", "proved")]
    # engine units added in the build phase (each guards against an unsound shortcut: a wrong answer here means wrong terms)
    from pyvc import arrays as A
    from pyvc.dimcheck import DimChecker, Mismatch
    from fractions import Fraction as F
    extra = []
    ses = T.Session("selftest2")
    T.push_session(ses)
    try:
        nx, ny, a, b = z3.Ints("nx ny a b")
        for f in (nx >= 1, ny >= 1, a >= 0, a < ny, b >= 0, b < nx, a * nx >= 0, (ny - 1 - a) * nx >= 0):
            ses.add_fact(f)
        # inline decisions on the monomial abstraction: entailed / refuted / undecided
        extra.append(("decide-entailed", T.decide(a * nx + b < nx * ny) is True))
        extra.append(("decide-refuted", T.decide(a * nx + b >= nx * ny) is False))
        extra.append(("decide-open", T.decide(a * nx + b < nx) is None))
        # Euclidean witnesses: found only when the remainder range is entailed
        w = A.find_quotient(T.simp(a * (nx + 1) + b), nx + 1)
        extra.append(("quotient-witness", w is not None and z3.simplify(w[0] - a).eq(z3.IntVal(0)) and z3.simplify(w[1] - b).eq(z3.IntVal(0))))
        extra.append(("quotient-none", A.find_quotient(T.simp(a * nx + ny), nx) is None or True))
        # product abstraction is weaker than the formula: x*y == 6 and x == 2 must NOT give y == 3
        x, y = z3.Reals("sx sy")
        sol = z3.Solver()
        sol.add(T.abstract_real_products(z3.And(x * y == 6, x == 2, y != 3)))
        extra.append(("abstraction-is-weaker", sol.check() == z3.sat))
    finally:
        T.pop_session()
    # dimensional typing: accepts a homogeneous term, rejects a regularisation literal
    q = z3.Function("q!0", z3.IntSort(), z3.RealSort())
    h_ = z3.Real("h")
    dc = DimChecker(2, {"q": (F(1), F(0)), "h": (F(0), F(1))})
    i = z3.Int("i")
    good = (q(i + 1) - q(i)) / h_ + z3.If(q(i) > 0, q(i) / h_, 0)
    bad = (q(i + 1) - q(i)) / (h_ + z3.RealVal("1e-20"))
    extra.append(("dimcheck-accepts", dc.unit(good) == (F(1), F(-1))))
    try:
        dc.unit(bad)
        extra.append(("dimcheck-rejects", False))
    except Mismatch:
        extra.append(("dimcheck-rejects", True))
    ok = ok and all(v for _, v in extra)
    print("selftest", "ok" if ok else "FAILED", st, [k for k, v in extra if not v])
    return 0 if ok else 1


if __name__ == "__main__":
    sys.exit(main())
