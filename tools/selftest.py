#!/usr/local/bin/python3-vt
"""engine self-test run by setup_cmd: the interpreter loads the real sources, a trivially
false obligation is refuted and a trivially true one proved (guards against a solver or
pool that answers 'proved' to everything)"""
import os, sys
sys.path.insert(0, os.path.dirname(os.path.dirname(os.path.abspath(__file__))))
import z3
from pyvc.framework import Check, prove
from pyvc import terms as T


def main():
    chk = Check("SELFTEST")
    for m in ("flowdyn.modelphy.euler", "flowdyn.modelphy.shallowwater", "flowdyn.modelphy.burgers",
              "flowdyn.modelphy.convection", "flowdyn.xnum", "flowdyn.mesh", "flowdyn.mesh2d", "flowdyn.modeldisc",
              "flowdyn.integration", "flowdyn.field"):
        chk.interp.load(m)

    def h():
        x = z3.Real("x")
        prove("true", z3.Implies(x > 1, x * x > 1))
        prove("false", x * x > 1, expect="refuted")
    chk.run("selftest", h)
    from pyvc import discharge
    tasks = []
    for ob in chk.obligations:
        text, _ = discharge.to_smt2(ob)
        tasks.append((ob.name, text, 10.0, {"steps": ["z3"]}))
    res = discharge.run_all(tasks, procs=2)
    st = sorted((k.split("/")[-1], v["status"]) for k, v in res.items())
    ok = st == [("false", "refuted"), ("true", "proved")]
    print("selftest", "ok" if ok else "FAILED", st)
    return 0 if ok else 1


if __name__ == "__main__":
    sys.exit(main())
