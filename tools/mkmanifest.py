#!/usr/local/bin/python3-vt
"""regenerates /verif/MANIFEST.json from the table below (keeps it valid at all times)"""
import json, os, sys
HERE = os.path.dirname(os.path.dirname(os.path.abspath(__file__)))
props = [json.loads(l) for l in open(os.path.join(HERE, "properties.jsonl"))]

TB = ("trusted: pyvc (own ast->z3 VC generator and numpy model, /verif/pyvc), z3 5.1 / cvc5 1.0.3, "
      "Python/numpy floats treated as mathematical reals except where a range obligation is stated")

CHECKS = {
 "C02": dict(
   technique="contract-based deductive verification: VCs generated from the ast of the real flux functions, "
             "sidecar contracts + ghost hints (cuts/rewrites), discharged by z3 (cvc5 for unknowns)",
   text="Proof for all admissible states, gamma, g, symbolic array length: every registered numflux (enumerated from the "
        "source registries) is executed symbolically through model.numflux and its result at a generic face is proved equal "
        "to the physical flux for equal states, mirror-symmetric, and equal to the upwind physical flux in the supercritical "
        "regime; safety (denominators, sqrt arguments) included. Counterexamples are replayed on the real code.",
   note=TB + "; sqrt as uninterpreted function with instantiated axioms; euler2d's inherited hllc/centeredmassflow "
        "(ignore the face normal) excluded; hints are proved against the code, never assumed.",
   ref="§6 C02"),
 "C12": dict(
   technique="contract-based deductive verification: VCs from the ast of the real limiter functions (scalar and array "
             "semantics), z3; overflow as a range obligation on every result-relevant intermediate",
   text="Proof for all real pairs (a,b): each limiter exported by flowdyn.xnum satisfies the TVD-region clauses of the "
        "statement (zero for opposite signs, sign, |r|<=2min, |r|<=max, symmetric, odd), approximate homogeneity/identity "
        "within the stated tolerance, pointwise lift to arrays of symbolic length, and no intermediate the result depends on "
        "exceeds the double range on the box 1e-150..1e150.",
   note=TB + "; approximate clauses carry the statement's 1e-20/a^2 plus 4 unit round-offs; homogeneity of the two smooth "
        "limiters is proved through a regulariser-free ghost reference (hint, checked).",
   ref="§6 C12"),
}

CHECKS["C17"] = dict(
   technique="contract-based deductive verification: VCs from the ast of cons2prim/prim2cons and every registered variable "
             "function, reached through model.nameddata; z3",
   text="Proof for all admissible states and gamma: both round trips are the identity for each of the six models, and every "
        "name registered in a model's variable dictionary (enumerated from the decorators) equals its definition from the "
        "statement at a generic cell of an array of symbolic length, with the shape clause 'one value per cell for scalar "
        "quantities' (1-D and 2-D).",
   note=TB + "; sqrt/rpow/log uninterpreted with instantiated axioms; known finding K1 (signed 1-D mach) listed in "
        "known_findings.json.",
   ref="§6 C17")
CHECKS["C18"] = dict(
   technique="contract-based deductive verification: VCs from the ast of every model.timestep and of the two calc_timestep "
             "methods; spectral radius derived independently (sympy eigenvalue lemma + z3)",
   text="Proof for all admissible states, cell sizes, CFL>0, symbolic number of cells: timestep[i]*rho(A_i) = CFL*size_i, "
        "positive, of the right shape and local (reads cell i only); fvm1d passes xf[i+1]-xf[i], fvm2dcart passes "
        "dx*dy/(dx+dy). The driver's use of the minimum / local array is decided with C07.",
   note=TB + "; sympy trusted for the characteristic-polynomial root check; Burgers requires u!=0 (finiteness precondition).",
   ref="§6 C18")

CHECKS["C16"] = dict(
   technique="contract-based deductive verification: VCs from the ast of every registered bc_* function, reached through "
             "model.namedBC; spec functions for total quantities, invariants, Rankine-Hugoniot; staged ghost lemmas; z3",
   text="Proof for all admissible interior states, parameters and gamma, both sides (four sides in 2-D): each registered "
        "boundary condition of every model returns a state meeting its definition from the statement (total pressure / "
        "temperature, imposed or kept pressure, Riemann invariant, entropy, jump relations, normal-velocity reversal, "
        "identity), and for every registered flux no mass or energy crosses a 'sym' wall (wall-flux lemma).",
   note=TB + "; x**y as uninterpreted function with instantiated lemma instances of rpow_add/rpow_mul; regimes stated in "
        "the evidence assumptions; known finding K3 (outsub_nrcbc keeps the other invariant) listed in known_findings.json.",
   ref="§6 C16")

CHECKS["C20"] = dict(
   technique="contract-based deductive verification: the real mesh constructors executed symbolically (symbolic ncell, nx, "
             "ny, lengths, ratio; parallel-map loop rule for the centre loop), obligations at generic indices, z3; "
             "sums by the sum-induction (telescoping) lemma",
   text="Proof for all ncell>=1 (nx,ny>=1), lengths, origins, ratios, zone proportions that are whole numbers of cells, and "
        "any strictly increasing morphing function: ncell+1 strictly increasing faces with the stated end points, centres at "
        "midpoints, positive volumes that sum to the domain length, volume-weighted average exact for constants, the two "
        "refined zones uniform with the requested ratio; 2-D: cell/face counts, volumes, the four boundary index tables "
        "(each the boundary faces of its side, pairwise disjoint, injective, interior faces in none), orientation and "
        "outward unit normals.",
   note=TB + "; int() as truncation on reals; numpy linspace/append/arange/repeat/average by documented semantics; sums "
        "over symbolic n through the sum-induction lemma (premises discharged, schema trusted).",
   ref="§6 C20")

CHECKS["C11"] = dict(
   technique="contract-based deductive verification: cons2prim/calc_grad/calc_bc_grad/interp_face and the whole fvm1d.rhs "
             "executed symbolically from the ast with symbolic ncell; obligations at generic faces/cells; z3",
   text="Proof for every 1-D reconstruction exported by xnum (MUSCL with every limiter), periodic and non-periodic closure, "
        "symbolic number of cells: constant data give the cell value at every face; extrapol1 returns the adjacent cell "
        "values; a linear profile on ANY strictly increasing face distribution is reproduced at every face whose two adjacent "
        "gradients are interior (smooth limiters: within C12's regularisation tolerance); the named schemes carry the kappa "
        "of the statement; the space operator of linear convection on the real uniform periodic mesh equals the wrapped "
        "kappa stencil for symbolic kappa, both convection signs, n>=5 symbolic (seam cells and generic interior cell) and "
        "n=1..4 concrete. 2-D (periodic Cartesian grid, symbolic nx, ny >= 1, kappa, generic cell): along x and along y the "
        "left/right face states of extrapol2dk(kappa) are the kappa-scheme states of the cells of that row / column (periodic "
        "wrap included) for every primitive component, and extrapol2d1 returns the adjacent cell values.",
   note=TB + "; mesh contract of C20 as hypothesis for the exactness clauses; 2-D: stated on the face states (flowdyn has no "
        "2-D linear-convection model; the stencil of an operator that is linear in the face states follows as in 1-D); "
        "cons2prim through its pointwise contract (C15 leaf).",
   ref="§6 C11")

CHECKS["C01"] = dict(
   technique="contract-based deductive verification: fvm1d.rhs and fvm2dcart.rhs executed symbolically from the ast (symbolic "
             "ncell / nx, ny; abstract monotone mesh; parallel-map loop rule for the 2-D row loops); numflux through its "
             "contract (pointwise/consistent/wall, opaque result arrays + on-demand instances); sum-induction (telescoping) "
             "lemma; z3",
   text="Proof for all cell data, all strictly increasing face distributions, symbolic number of cells, every 1-D model x "
        "reconstruction (all limiters) x boundary pair {periodic, sym, dirichlet, inlet/outlet}: per-cell flux balance "
        "res*vol = -(F[i+1]-F[i]); the volume integral of every conserved variable changes by F[0]-F[n] only; it is "
        "invariant for periodic closure (both end faces see the same states) and, for mass and energy/depth, between two "
        "slip walls; every registered flux body is pointwise (the contract's frame). 2-D Cartesian operator (euler2d, "
        "extrapol2d1 and extrapol2dk with symbolic kappa, symbolic nx, ny, lx, ly, {per, sym} on each pair of sides): the flux "
        "array has (nx+1)ny + nx(ny+1) entries, per-cell balance res*dx*dy = -dy(Fx[i+1]-Fx[i]) - dx(Fy[j+1]-Fy[j]) at a "
        "generic cell, the two faces of a periodic pair see the same states, no mass/energy flux through a wall face. "
        "Integrator part: see C05/C06 normal forms.",
   note=TB + "; mesh contract (C20) as hypothesis; flux contract clauses proved in C02/C16; floating-point intermediates "
        "assumed finite (no safety obligations here: unlimited reconstructions may give inadmissible face states); 2-D: the "
        "double telescoping sum over rows and columns is the sum-induction lemma applied twice (schema trusted, premises "
        "discharged). The check also discharges the wall clause of the flux contract for every flux (uses:C16/wall/*), the mesh contract (uses:C20/*) and the integrator half of the statement (uses:C05/*: normal forms of the explicit integrators; uses:C06/size(n=2,neq=1|2)/*, fd-step*: implicit family).",
   ref="§6 C01")

CHECKS["C15"] = dict(
   technique="contract-based deductive verification, relational and modular: leaf contracts on the real 2-D flux bodies "
             "(transposition, normal / tangential reflection, reduction to the 1-D flux of the same name), on the real 2-D "
             "boundary conditions and on cons2prim (commutation with the three maps, pointwise, reduction to 1-D); "
             "fvm2dcart.rhs executed symbolically on a problem and on its image (and fvm1d.rhs for the 1-D comparison) with "
             "numflux, namedBC and cons2prim through those contracts, instantiated between the logged calls; staged ghost "
             "lemmas on the face states; z3/cvc5 + product-abstraction tier",
   text="Proof for all admissible data, symbolic nx, ny >= 1, lx, ly > 0, symbolic kappa, gamma: (leaves) centered and hlle "
        "satisfy F(tW_L,tW_R;e_y) = tF(W_L,W_R;e_x), F(R W_R,R W_L;n) = -R F(W_L,W_R;n) for the reflection normal to the face, "
        "F(R W_L,R W_R;n) = R F(W_L,W_R;n) for the tangential one, and equal the 1-D flux of the same name for states without "
        "transverse velocity (zero transverse momentum flux); sym/insub/insup/outsub/outsup commute with transposition and both "
        "reflections on all four sides, are pointwise along the boundary and reduce to the 1-D condition; cons2prim likewise. "
        "(operator) at a generic cell the residual of the transposed / x-reflected / y-reflected problem (grid, data, boundary "
        "tags moved accordingly) is the image of the residual, for extrapol2d1 and extrapol2dk(kappa) and periodic, wall, "
        "subsonic and supersonic inlet/outlet closures; for data constant along y (x) with zero transverse velocity the 2-D "
        "residual equals fvm1d's residual (extrapol1 / extrapolk(kappa), same flux name, same end conditions, uniform mesh of "
        "the same cell size) row by row (column by column) and the transverse momentum residual vanishes, with periodic or wall "
        "closure across. Quick tier: representative closures; thorough: all listed ones.",
   note=TB + "; 'data that do not vary along one direction' is read with zero transverse velocity; insup with an explicit "
        "'angle' is not covered; euler2d's inherited hllc/centeredmassflow (ignore the face normal) excluded as in C02; the "
        "statement is about the operator (observe_at: rhs): integrators/driver by the normal forms of C05-C07 (the 2-D time "
        "step dx*dy/(dx+dy) is symmetric in dx, dy: C18).",
   ref="§6 C15")

CHECKS["C19"] = dict(
   technique="contract-based deductive verification: fvm1d.rhs executed symbolically twice (with / without sources) from "
             "the ast; the nozzle constructor executed with CPython closure and aliasing semantics; abstract user functions "
             "with ghost call log; z3",
   text="Proof for all admissible fields, all strictly increasing meshes, symbolic ncell, every subset of equations carrying a "
        "source (all 2^neq patterns and None) for shallow water, Euler 1-D and the nozzle: no exception, each source called "
        "exactly once with (cell centres, conservative data), operator with sources = operator without + source_k on "
        "equation k; nozzle: geomterm and the three area sources equal -(1/A)(dA/dx) x (mass, momentum-convective, enthalpy "
        "flux) for an abstract section law, zero for a constant section, user sources added to the built-in ones.",
   note=TB + "; user sources / section law abstract; numflux through its contract (deterministic pointwise function); "
        "2-D add_source shares the code path (fvm2dcart.add_source is textually the same loop), checked with the 2-D machinery.",
   ref="§6 C19")

CHECKS["C03"] = dict(
   technique="contract-based deductive verification by contract chaining: bc fixed-point clauses (leaf, per condition) -> "
             "fvm1d.rhs executed symbolically with numflux and namedBC through their contracts -> residual 0; z3",
   text="Proof for all uniform admissible states (any Mach number), gamma, symbolic ncell (seam cells + generic cell; n=1,2 "
        "concrete), any strictly increasing mesh: each Euler inlet/outlet condition whose parameters are those of the state "
        "returns the state (both sides, in its regime); with periodic, same-state dirichlet and every matched inlet x outlet "
        "pair every face sees (W,W), so by flux consistency the residual of every equation vanishes, for every model and "
        "reconstruction (quick tier: every reconstruction with representative pairs + every pair with extrapol1/2; thorough: "
        "full product); nozzle at rest for an abstract section law. 2-D (fvm2dcart, euler2d, extrapol2d1 / extrapol2dk with symbolic kappa, symbolic nx, ny, lx, ly, generic cell): the residual of a uniform state vanishes with periodic closure at any flow angle and with matched insub/outsub, outsub/insub, insup/outsup and wall closures for a flow along the inlet normal (inlet/outlet conditions through the derived contract 'matched 2-D condition with the velocity along its normal returns the state' = C15 leaf bc/*/one-dimensional composed with the 1-D fixed-point leaf; walls, periodic copies, gradients, reconstruction and flux assembly are the real code). Integrators: R(Q*)=0 => step(Q*)=Q* follows from the "
        "normal forms of C05 (explicit) and the linear systems of C06 (implicit).",
   note=TB + "; flux consistency from C02, mesh contract from C20, power laws as lemma instances; 2-D operator pending the "
        "2-D machinery. The check also discharges the flux consistency clause it instantiates (uses:C02/*/consistency), the 2-D/1-D boundary-condition clause (uses:C15/bc/*/one-dimensional), the mesh contract (uses:C20/*) and the integrator half of the statement (uses:C05/*, uses:C06/size(n=2,neq=1|2)/*, fd-step*).",
   ref="§6 C03")
CHECKS["C05"] = dict(
   technique="contract-based deductive verification: step() of every explicit integrator class executed symbolically against "
             "the abstract contract of modeldisc.rhs; Butcher tableau / stage times EXTRACTED from the executed code and "
             "validated by z3 identities; order conditions etc. in exact rational arithmetic",
   text="Proof for every right-hand side (abstract operator), all fields, dt, symbolic ncell, two equations: each explicit "
        "integrator found in the source is an explicit Runge-Kutta step (z3 identities Q' = Q + dt sum b_s R_s, stages, time "
        "+dt); all rooted-tree order conditions up to the nominal order, sum b = 1, the time presented to each stage equals "
        "t + c_s dt, stability polynomials of the low-storage schemes (Bogey-Bailly / Taylor), Shu-Osher witness (convex "
        "combination of Euler steps of size <= dt) for rk2_heun and rk3ssp.",
   note=TB + "; the published Bogey-Bailly coefficients are recorded in props/C05.py (tolerance 1e-9, see comment there).",
   ref="§6 C05")
CHECKS["C06"] = dict(
   technique="contract-based deductive verification: calc_jacobian / solve_implicit / implicit, trapezoidal, gear step "
             "executed symbolically against an abstract linear operator; calc_jacobian used through its contract inside the "
             "steps; linalg.solve by assumed contract; row identities by exact rational algebra (sympy) + z3; "
             "BOUNDED in the system size",
   text="For system sizes ncell x neq in {1x1,2x1,3x1,2x2,3x2} and ALL operator entries, fields, dt: calc_jacobian returns "
        "the operator (layout row=cell*neq+eq); implicit solves (I-dtA)Q'=Q, trapezoidal/cranknicolson (I-dtA/2)Q'=(I+dtA/2)Q, "
        "gear starts with one Crank-Nicolson step of size dt and then satisfies 3Q2-4Q1+Q0=2dt A Q2 with the history "
        "invariant; time advances by dt; with a per-cell time-step array (dtlocal) implicit / cranknicolson solve the same systems "
        "with dt_i on every equation of cell i (local-dt/*). Unbounded: the finite-difference perturbation is proportional to mean|q| with a "
        "relative size inside the rounding/truncation window [4.4e-13,1e-3] and never zero; no-growth of 1/(1-z) and "
        "(1+z/2)/(1-z/2) for Re z<=0; orders 1/2/2.",
   note=TB + "; numpy.linalg.solve assumed (M x = b, nonsingular); the linear-system identities are a bounded stand-in in the "
        "mesh size (loops of calc_jacobian unrolled), stated in the evidence under bounded_standins; 'Jacobian equals the "
        "derivative' for nonlinear operators is a limit statement: decided as difference-quotient form + step window. gear: the history invariant is proved inductively (Crank-Nicolson start establishes it, one step from an arbitrary state with a history satisfying it re-establishes it and satisfies the BDF2 recurrence).",
   ref="§6 C06")

CHECKS["C07"] = dict(
   technique="contract-based deductive verification: loop-invariant rule applied to the real loop bodies of "
             "timemodel._solve taken from the ast (prologue, generic main-loop iteration, generic save-loop iteration), "
             "step/calc_timestep through their contracts with ghost call logs; step time advance from the executed steps; z3",
   text="Proof for all strictly increasing save-time lists of any length (symbolic), any start time, stop = default / maxit / "
        "tottime / both, global and local time step, explicit and implicit families, symbolic ncell: each explicit "
        "integrator advances time by dt / min(dt) (implicit: C06); the prologue copies the caller's field (never touched), "
        "serves a save time equal to the start time with the initial state and establishes the invariant 'pending save "
        "time strictly ahead'; a generic iteration takes exactly one full step of size min(dt) (or the local array) from a "
        "copy of the trajectory state, counts it, serves every save time reached by this step by a forward sub-step "
        "0<d<=min(dt) from a copy, stamps it with the requested time and the iteration, preserves the invariant, and "
        "evaluates the stop criteria on the new state; with the default stop all save times are served at exit.",
   note=TB + "; termination of the loops is not proved; monitors/flush off here (C08).",
   ref="§6 C07")

CHECKS["C08"] = dict(
   technique="contract-based deductive verification with frame conditions: ghost attribute read/write logs recorded while "
             "the real step / solve / restart / snapshot / monitor code is executed symbolically from the ast; "
             "restart prologue and monitor methods against their contracts; z3 + evaluation",
   text="For every integrator class (explicit, RK, low-storage, implicit family incl. the multistep gear; linear and "
        "nonlinear models): the solver attributes step reads before writing and also writes (carried state) are either a "
        "sound cache (Jacobian of a linear model, C06) or re-initialised by solve() (stale values planted and checked), "
        "are not written on the trajectory solver by a snapshot sub-step (real code run, dynamic frame) nor by the monitors, "
        "which also leave the trajectory state untouched; restart() continues the cumulative count from the field's "
        "iteration tag and starts from the given state (with C07: every returned state carries its iteration); both "
        "monitor kinds append exactly when totnit() % frequency == 0 with (totnit(), time, value of the trajectory state).",
   note=TB + "; proved over the reals: 'bit-identical' additionally assumes deterministic numpy/BLAS (DESIGN §5.6); step/rhs/"
        "averages abstract (deterministic functions of their arguments). The check also discharges the C06 leaves of the Jacobian cache it relies on (uses:C06/size(n=2,neq=1|2)/*: the cached Jacobian is the operator, calc_jacobian leaves self.residual unspecified, each implicit step recomputes it).",
   ref="§6 C08")

CHECKS["C14"] = dict(
   technique="contract-based deductive verification, relational: fvm1d.rhs (and fvm2dcart.rhs) executed symbolically on data "
             "and on the data shifted by one cell, uniform periodic mesh through its contract (C20), numflux through its "
             "contract; staged ghost lemmas on the face states; z3 + product-abstraction tier",
   text="Proof (1-D) for all data, symbolic ncell>=6 (five seam cells + generic interior cell) and ncell=1..5, every model and "
        "reconstruction family (quick tier: extrapol1/2/k and MUSCL minmod/vanleer; thorough: all): the residual of the shifted "
        "data is the shifted residual at every cell, and the per-cell time step is shift-equivariant; hence (lemmas: "
        "composition of shifts, permutation invariance of the minimum, normal forms of C05-C07) every integrator and the "
        "driver commute with cyclic shifts. 2-D (euler2d, extrapol2d1 and extrapol2dk with symbolic kappa, symbolic nx, ny >= 1, "
        "lx, ly, periodic on all sides): at a generic cell the residual of the data shifted by one cell along x or along y is "
        "the shifted residual, and the per-cell time step is shift-equivariant (cells next to the seam are the cases of the "
        "generic cell; grids as small as 1x1 included).",
   note=TB + "; mesh contract (uniform, C20) and flux contract (pointwise function, C01) as hypotheses; 2-D: cons2prim and "
        "numflux through their pointwise contracts (leaf clauses in C15 cons2prim/*, C01 flux/*/pointwise), the rest of "
        "fvm2dcart.rhs is the real code. The check also discharges the pointwise contracts it instantiates (uses:C01/flux/*/pointwise, uses:C15/cons2prim/*).",
   ref="§6 C14")

CHECKS["C13"] = dict(
   technique="contract-based deductive verification, relational: fvm1d.rhs executed symbolically on a problem and on its "
             "mirror image (abstract mesh); numflux, namedBC and the limiter through contracts whose mirror clauses are "
             "proved at leaf level (C02 mirror, C13 bc-mirror, C12 odd/symmetric); staged ghost lemmas; z3/cvc5. Change of "
             "units: dimensional typing (unit-exponent derivation, pyvc/dimcheck.py) of the symbolic residual and time "
             "step produced by the real flux / boundary-condition / limiter / reconstruction bodies",
   text="REFLECTION: proof for all data, all strictly increasing meshes, symbolic ncell>=5 (four seam "
        "cells + generic cell; 1..4 concrete for extrapol2): every registered boundary condition of every 1-D model commutes "
        "with the reflection (both sides, in its regime); the residual of the mirrored problem is the mirrored residual "
        "(even quantities equal, odd ones negated) and the per-cell time step is reflection invariant, for convection, "
        "Burgers, shallow water and Euler with periodic, dirichlet, wall and inlet/outlet pairs exchanged (quick tier: "
        "extrapol1/extrapol2 for all models, symbolic-kappa and MUSCL for the scalar models; thorough: every boundary pair and "
        "small mesh for extrapol1/2/3 on the systems and for every reconstruction on the scalar models; NOT decided at the "
        "operator level: Euler / shallow water with symbolic-kappa or MUSCL reconstructions -- beyond the solver budget, their "
        "ingredients (limiter odd/symmetric, flux mirror, boundary mirror clauses) are decided at leaf level). UNITS: for convection, Burgers, shallow water and "
        "Euler 1-D, every registered flux, every reconstruction and limiter, every boundary pair (real bodies, abstract mesh, "
        "symbolic ncell, seam cells + generic cell): the symbolic residual of component k and the time step admit a "
        "dimensional typing derivation with the units Q_k/time and time, i.e. they are homogeneous of that degree in the "
        "three scale factors for all inputs (proof by induction on the term).",
   note=TB + "; units: the typing rules are the trusted part (sum/comparison of equal units, products add exponents, sqrt "
        "halves, x**y/log of dimensionless arguments, the literal 0 of any unit); 'bit for bit for powers of two' is the "
        "per-operation floating-point lemma stated in the evidence (no overflow/underflow), exercised on the real code by the "
        "replay (three factor triples, O(1) and 1e-9 / 1e-19 variations); nozzle not typed (same operator as euler1d plus the "
        "section law's own unit); integrators/driver by linearity in the residuals (normal forms C05-C07). The check also discharges the leaf contracts the reflection proof instantiates (uses:C02/*/mirror, selection; uses:C12/*/scalar).",
   ref="§6 C13, §11")

CHECKS["C09"] = dict(
   technique="contract-based deductive verification: limiter through its C12 contract, fvm1d.rhs / time step / minimum "
             "executed symbolically, local step lemma at generic + seam cells (z3); Shu-Osher witness (C05) and Harten's "
             "lemma (Lean/Mathlib) for SSP stages and TVD; Burgers-MUSCL: labelled bounded stand-in",
   text="Proof for all data, symbolic ncell: (1) first-order upwind linear convection on ANY strictly increasing mesh, either "
        "sign of a, CFL<=1: one explicit Euler step puts every cell between itself and its upwind neighbour (incremental "
        "coefficient in [0,1]); (2) MUSCL with ANY limiter satisfying the C12 contract on the uniform periodic mesh, either "
        "sign of a, CFL<=1/2: the same local bound at the four seam cells and a generic cell. Hence the range is kept, and "
        "by Harten's lemma the total variation does not increase; rk2_heun/rk3ssp by the Shu-Osher witness of C05. "
        "Burgers with MUSCL: NOT proved -- bounded stand-in on the real solver (range and TV of one step over fixed sign "
        "patterns and seeded random fields, 4 limiters x 3 integrators x 3 CFL), reported under bounded_standins; the "
        "deductive local lemma for Burgers is attempted in the thorough tier only (144-case split, partly undecided).",
   note=TB + "; Harten's lemma is a Lean 4/Mathlib proof (lean/Harten.lean) re-checked in the thorough tier only; Burgers "
        "part bounded, never counted in obligations/discharged. The check also discharges the limiter contract it is stated over (uses:C12/*/scalar, array).",
   ref="§6 C09")

CHECKS["C10"] = dict(
   technique="contract-based deductive verification of the flux contracts (HLL form + Einfeldt bounds of the real "
             "hlle/hll/rusanov code, via ghost cuts) and of the positivity lemma chain (z3, sympy identities); the claim at "
             "the code's own CFL, SSP stages, HLLC and walls: labelled bounded stand-in",
   text="PROVED for all admissible states: the real numflux_hlle (Euler), numflux_hll and numflux_rusanov (shallow water) "
        "return the HLL flux for wave-speed estimates satisfying the Einfeldt bounds (sL<=min(0,uL-cL), sR>=max(0,uR+cR), "
        "sR-sL>0; Rusanov: sR=-sL>=|u|+c on both sides); the admissible set is a convex cone; sU-F(U) and F(U)-sU are "
        "admissible beyond the acoustic speeds; the HLL flux equals F_L+sL(U*-U_L)=F_R+sR(U*-U_R) with an admissible star "
        "state; one explicit Euler step is a convex combination of U_i and two star states when "
        "lambda*(sR_leftface - sL_rightface)<=1. NOT PROVED and covered only by a bounded stand-in on the real solver "
        "(seeded random / piecewise-constant data, ratios up to 1e3, |M|<=3, 6 steps): positivity at the code's CFL in "
        "(0,1/2] (the face-speed condition does not follow from the cell CFL), rk2_heun/rk3ssp, HLLC, wall boundaries.",
   note=TB + "; the statement of C10 as a whole is therefore NOT proved: proof covers the contract/lemma chain under the "
        "face-speed CFL; everything else is bounded (listed under bounded_standins, never counted in obligations).",
   ref="§6 C10")

NA = {
 "C04": "convergence of a solve at the design order under mesh refinement is a limit statement over a family of meshes "
        "(and an empirical one for Riemann problems; the reference solutions wrap the external aerokit): no pre/postcondition "
        "of any call expresses or decides it (DESIGN §7); its algebraic preconditions are decided in C11, C05, C01, C02",
}

checks = []
na = []
for p in props:
    i = p["id"]
    if i in CHECKS and os.path.exists(os.path.join(HERE, "props", i + ".py")):
        c = CHECKS[i]
        checks.append({
            "property_id": i,
            "quick_cmd": "python3-vt check %s --tier quick" % i,
            "thorough_cmd": "python3-vt check %s --tier thorough" % i,
            "evidence_file": "evidence/%s.json" % i,
            "replay_cmd_template": "python3-vt check %s --replay {path}" % i,
            "engine": "pyvc",
            "level_claimed": {"category": "proof", "text": c["text"], "design_ref": "DESIGN.md " + c["ref"]},
            "level_note": c["note"],
            "technique": c["technique"],
        })
    else:
        na.append({"property_id": i, "reason": NA.get(i, "check not built yet (build in progress, see DESIGN.md §6)")})

m = {
 "version": 1,
 "setup_cmd": "python3-vt -m compileall -q pyvc props contracts && python3-vt tools/selftest.py",
 "hooks": {"guard": "FLOWDYN_VERIF",
           "enable": "no hooks: the verifier parses /repo's working tree with ast on every run; nothing in /repo is instrumented",
           "baseline_off_cmd": "cd /repo && /venv/bin/python -m pytest -ra -q -p no:cacheprovider --timeout=900 --continue-on-collection-errors",
           "source_commits": [], "add_only": True},
 "engines": [{"name": "pyvc", "path": "pyvc/", "serves_properties": [c["property_id"] for c in checks],
              "kind_free_text": "verification-condition generator over the ast of the real flowdyn sources (symbolic "
                                "interpreter with lambda arrays, sidecar contracts, ghost hints), z3/cvc5 back ends"}],
 "checks": checks,
 "notes": "Exit codes of every check: 0 held, 1 VIOLATION (replay path printed), 2 undecided obligation(s), 3 engine error. "
          "Known findings: known_findings.json. See DESIGN.md.",
 "not_applicable": na,
}
json.dump(m, open(os.path.join(HERE, "MANIFEST.json"), "w"), indent=1)
print("checks:", [c["property_id"] for c in checks], "not_applicable:", [n["property_id"] for n in na])
